// Demonstration of the three C19 defects fixed by be77b06 / fc2e389 / c4446d9: append to
// circuits/src/parsing/regex.rs and run `cargo test -p midnight-circuits --lib verif_c19_epsilon_neg`.
// On 4da58d3 (before the fixes) the first three tests fail; after the fixes all pass.
#[cfg(test)]
mod verif_c19_epsilon_neg {
    use super::{Regex, RegexInstructions};
    use crate::parsing::automaton::Automaton;
    fn accepts(automaton: &Automaton, input: &[u8]) -> bool {
        let (states, _output, stuck) = automaton.run(input);
        !(stuck || !automaton.final_states.contains(states.last().unwrap()))
    }
    #[test]
    fn neg_of_epsilon_is_all_nonempty_words() {
        let a = Regex::epsilon().neg().to_automaton_param(3);
        assert!(!accepts(&a, &[]), "epsilon must be rejected");
        for w in [vec![0u8], vec![1], vec![2, 1], vec![0, 0, 2]] {
            assert!(accepts(&a, &w), "non-empty word {:?} must be accepted by !epsilon", w);
        }
    }
    #[test]
    fn any_minus_epsilon() {
        let a = Regex::any().minus(Regex::epsilon()).to_automaton();
        assert!(!accepts(&a, b""));
        assert!(accepts(&a, b"x"), "\"x\" is in any \\ epsilon");
    }
    #[test]
    fn neg_of_empty_language_and_any_alone() {
        let a = Regex::union([]).neg().to_automaton_param(3);
        assert!(accepts(&a, &[]) && accepts(&a, &[1]) && accepts(&a, &[2, 0]));
        let b = Regex::any().to_automaton(); // panicked before c4446d9
        assert!(accepts(&b, b"") && accepts(&b, b"xyz"));
    }
    #[test]
    fn optional_neg() {
        let r: Regex = 1.into();
        let a = r.optional().neg().to_automaton_param(3);
        assert!(!accepts(&a, &[]) && !accepts(&a, &[1]) && accepts(&a, &[0]) && accepts(&a, &[1, 1]));
    }
}
