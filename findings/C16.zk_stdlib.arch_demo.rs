use midnight_proofs::plonk::ConstraintSystem;
use midnight_zk_stdlib::{MidnightVK, ZkStdLib, ZkStdLibArch};

/// An architecture descriptor is untrusted input: it is the first thing decoded from a serialized
/// verifying key.  Configuring the library from ANY descriptor must not panic.
#[test]
fn configure_does_not_panic_on_large_pow2range_count() {
    let arch = ZkStdLibArch {
        nr_pow2range_cols: 10,
        ..Default::default()
    };
    let r = std::panic::catch_unwind(move || {
        let mut cs = ConstraintSystem::<midnight_curves::Fq>::default();
        let _ = ZkStdLib::configure(&mut cs, arch);
    });
    assert!(r.is_ok(), "ZkStdLib::configure panicked on nr_pow2range_cols = 10");
}

/// The same through the decoder of a verifying key: only the descriptor header is valid, the rest is
/// garbage, so the expected outcome is an Err, not a panic.
#[test]
fn vk_read_returns_err_not_panic() {
    let arch = ZkStdLibArch {
        nr_pow2range_cols: 200,
        ..Default::default()
    };
    let mut bytes = Vec::new();
    arch.write(&mut bytes).unwrap();
    bytes.extend_from_slice(&[8u8]); // max_bit_len
    bytes.extend_from_slice(&0u32.to_le_bytes()); // nb_public_inputs
    bytes.extend_from_slice(&[0u8; 16]); // truncated key body
    let r = std::panic::catch_unwind(move || {
        MidnightVK::read(&mut &bytes[..], midnight_proofs::utils::SerdeFormat::RawBytes).is_err()
    });
    assert!(matches!(r, Ok(true)), "MidnightVK::read panicked or accepted garbage");
}
