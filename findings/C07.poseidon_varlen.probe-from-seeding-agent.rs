// SIDE FINDING (unrelated to the seeded change; baseline code, nothing patched):
// append to circuits/src/hash/poseidon/mod.rs and run
//   cargo test -p midnight-circuits --offline --lib side_probe -- --nocapture
// On the unmodified checkout it prints ok=false for every odd length with filler 7:
// VarLenPoseidonGadget::poseidon_varlen tests `i == MAX_LEN / RATE`, which is never true
// (chunk indices run 0..MAX_LEN/RATE-1), so constrain_last_chunk is dead code and the
// filler element after an odd-length payload is absorbed into the hash.

#[cfg(test)]
mod side_probe {
    use ff::Field;
    use midnight_proofs::{
        circuit::{Layouter, SimpleFloorPlanner, Value},
        dev::MockProver,
        plonk::{Circuit, ConstraintSystem, Error},
    };

    use super::{constants::RATE, VarLenPoseidonGadget};
    use crate::{
        field::{decomposition::chip::P2RDecompositionChip, AssignedNative, NativeChip, NativeGadget},
        instructions::{
            hash::{HashCPU, VarHashInstructions},
            AssertionInstructions, VectorInstructions,
        },
        testing_utils::FromScratch,
        vec::{vector_gadget::VectorGadget, AssignedVector},
    };

    type F = midnight_curves::Fq;
    type NG = NativeGadget<F, P2RDecompositionChip<F>, NativeChip<F>>;
    const M: usize = 8;

    #[derive(Clone, Debug)]
    struct Probe {
        input: Vec<F>,
        filler: F,
    }

    impl Circuit<F> for Probe {
        type Config = (
            <VarLenPoseidonGadget<F> as FromScratch<F>>::Config,
            <VectorGadget<F> as FromScratch<F>>::Config,
        );
        type FloorPlanner = SimpleFloorPlanner;
        type Params = ();
        fn without_witnesses(&self) -> Self {
            unreachable!()
        }
        fn configure(meta: &mut ConstraintSystem<F>) -> Self::Config {
            let a = meta.instance_column();
            let b = meta.instance_column();
            (
                VarLenPoseidonGadget::configure_from_scratch(meta, &[a, b]),
                VectorGadget::configure_from_scratch(meta, &[a, b]),
            )
        }
        fn synthesize(&self, config: Self::Config, mut layouter: impl Layouter<F>) -> Result<(), Error> {
            let chip = VarLenPoseidonGadget::<F>::new_from_scratch(&config.0);
            let ng = NG::new_from_scratch(&config.1);
            let vg = VectorGadget::new(&ng);
            let v: AssignedVector<F, AssignedNative<F>, M, RATE> = vg.assign_with_filler(
                &mut layouter,
                Value::known(self.input.clone()),
                Some(self.filler),
            )?;
            let out = chip.varhash(&mut layouter, &v)?;
            let expected = <VarLenPoseidonGadget<F> as HashCPU<F, F>>::hash(&self.input);
            ng.assert_equal_to_fixed(&mut layouter, &out, expected)?;
            chip.load_from_scratch(&mut layouter)?;
            ng.load_from_scratch(&mut layouter)
        }
    }

    #[test]
    fn side_probe_filler() {
        for len in 0..=M {
            for filler in [F::ZERO, F::from(7)] {
                let input: Vec<F> = (0..len).map(|i| F::from(100 + i as u64)).collect();
                let r = MockProver::run(12, &Probe { input, filler }, vec![vec![], vec![]]).unwrap().verify();
                println!("len={len} filler={filler:?} ok={}", r.is_ok());
            }
        }
    }
}
