// Contract on FieldChip::mul over an abstract domain (values in F_13, cell identity).  Loop-free.
use super::*;

fn sym_elem() -> AssignedField {
    let v: u8 = kani::any();
    let cell: u8 = kani::any();
    kani::assume(v < P && cell < 2 * P);
    // an element that occupies the cached cells of a constant has that constant's value
    kani::assume(cell >= P || v == cell);
    AssignedField { v, cell }
}

#[kani::proof]
fn field_mul_contract() {
    let x = sym_elem();
    let y = sym_elem();
    let has_k: bool = kani::any();
    let kv: u8 = kani::any();
    kani::assume(kv < P);
    let k = if has_k { Some(K(kv)) } else { None };
    let r = Chip.mul(&mut L, &x, &y, k);
    match r {
        Ok(z) => {
            let kk = if has_k { kv } else { 1 };
            assert!(z.v == (((x.v * y.v) % P) * kk) % P);
        }
        Err(_) => assert!(false),
    }
}
