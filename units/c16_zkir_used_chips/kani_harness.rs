// Contract on ZkirRelation::used_chips (body slice; real Operation / IrType / ZkStdLibArch definitions).  BOUNDED.
use super::*;

fn sym_type() -> (IrType, bool) {
    let k: u8 = kani::any();
    kani::assume(k < 6);
    match k {
        0 => (IrType::Bool, false),
        1 => (IrType::Bytes(4), false),
        2 => (IrType::Native, false),
        3 => (IrType::BigUint(16), false),
        4 => (IrType::JubjubPoint, true),
        _ => (IrType::JubjubScalar, true),
    }
}

fn run_one(operation: Operation, op_makes_jubjub: bool, constant: &str, const_is_jubjub: bool) {
    let instr = Instruction { operation, inputs: vec![constant.to_string()], outputs: vec!["z".to_string()] };
    let r = ZkirRelation { program: Program { instructions: vec![instr] } };
    let arch = r.used_chips();
    assert!(!(op_makes_jubjub || const_is_jubjub) || arch.jubjub);
}

// The constant strings are enumerated concretely (string parsing on a symbolically chosen string makes CBMC
// time out); the operation and its type parameter are symbolic.
#[kani::proof]
#[kani::unwind(20)]
fn used_chips_jubjub_contract() {
    let (t, t_is_jubjub) = sym_type();
    let o: u8 = kani::any();
    kani::assume(o < 13);
    let (operation, op_makes_jubjub) = match o {
        0 => (Operation::Load(t), t_is_jubjub),
        1 => (Operation::FromBytes(t), t_is_jubjub),
        2 => (Operation::Publish, false),
        3 => (Operation::AssertEqual, false),
        4 => (Operation::IsEqual, false),
        5 => (Operation::Add, false),
        6 => (Operation::Mul, false),
        7 => (Operation::Neg, false),
        8 => (Operation::AffineCoordinates, false),
        9 => (Operation::IntoBytes(32), false),
        10 => (Operation::Poseidon, false),
        11 => (Operation::Sha256, false),
        _ => (Operation::InnerProduct, false),
    };
    run_one(operation, op_makes_jubjub, "1", false);
    run_one(operation, op_makes_jubjub, "00ff", false);
    run_one(operation, op_makes_jubjub, "Native:01", false);
    run_one(operation, op_makes_jubjub, "BigUint:05", false);
    run_one(operation, op_makes_jubjub, "Jubjub:00", true);
    run_one(operation, op_makes_jubjub, "JubjubScalar:01", true);
}
