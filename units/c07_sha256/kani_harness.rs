// Kani harness for circuits/src/hash/sha256/utils.rs.
// Injected (scratch copy only) as a child module of that file, so `super::` names the real,
// private functions.  The contracts named in unit.json are inserted as
// #[kani::requires]/#[kani::ensures] attributes above the real fn items and are proved here
// with #[kani::proof_for_contract]; composed clauses (Ch identity, Sigma functions on the
// chip's limb splits) are plain full-domain harnesses: every input is kani::any() over the
// whole type, loops are bounded by the 32-bit word width (unwind 34, unwinding assertions on).
use super::*;

// ---------- specification side (written from FIPS 180-4 / the property, not from the code) ----------

/// bit i of x moved to bit 2i.
pub(super) fn spec_spread(x: u32) -> u64 {
    let mut r: u64 = 0;
    let mut i = 0;
    while i < 32 {
        if x & (1u32 << i) != 0 {
            r += 1u64 << (2 * i);
        }
        i += 1;
    }
    r
}

/// bits 0,2,4,.. of v packed into a u32.
pub(super) fn even_bits(v: u64) -> u32 {
    let mut r: u32 = 0;
    let mut i = 0;
    while i < 32 {
        if v & (1u64 << (2 * i)) != 0 {
            r |= 1u32 << i;
        }
        i += 1;
    }
    r
}

pub(super) fn is_spread(v: u64) -> bool {
    v & 0xAAAA_AAAA_AAAA_AAAAu64 == 0
}

fn rotr(x: u32, n: u32) -> u32 {
    x.rotate_right(n)
}
fn big_sigma0(x: u32) -> u32 {
    rotr(x, 2) ^ rotr(x, 13) ^ rotr(x, 22)
}
fn big_sigma1(x: u32) -> u32 {
    rotr(x, 6) ^ rotr(x, 11) ^ rotr(x, 25)
}
fn small_sigma0(x: u32) -> u32 {
    rotr(x, 7) ^ rotr(x, 18) ^ (x >> 3)
}
fn small_sigma1(x: u32) -> u32 {
    rotr(x, 17) ^ rotr(x, 19) ^ (x >> 10)
}
fn maj(a: u32, b: u32, c: u32) -> u32 {
    (a & b) ^ (a & c) ^ (b & c)
}
fn ch(e: u32, f: u32, g: u32) -> u32 {
    (e & f) ^ (!e & g)
}

/// Big-endian split of `v` into limbs of the given bit lengths (spec side: by division).
fn be_limbs<const N: usize>(v: u32, lens: [usize; N]) -> [u32; N] {
    let mut out = [0u32; N];
    let mut rest = v as u64;
    let mut i = N;
    while i > 0 {
        i -= 1;
        let m = 1u64 << lens[i];
        out[i] = (rest % m) as u32;
        rest /= m;
    }
    out
}

// ---------- contracts on the real functions ----------

#[kani::proof_for_contract(super::spread)]
#[kani::unwind(34)]
fn sha256_spread_contract() {
    let x: u32 = kani::any();
    spread(x);
}

#[kani::proof_for_contract(super::get_even_and_odd_bits)]
#[kani::unwind(34)]
fn sha256_even_odd_contract() {
    let v: u64 = kani::any();
    get_even_and_odd_bits(v);
}

#[kani::proof]
#[kani::unwind(34)]
fn sha256_compact_even_spec() {
    let v: u64 = kani::any();
    assert!(compact_even(v) == even_bits(v));
}

/// spread and the even/odd split are inverse: the lookup table row (plain, spread(plain)) is the
/// only row whose spreaded entry decodes to `plain`.
#[kani::proof]
#[kani::unwind(34)]
fn sha256_spread_roundtrip() {
    let x: u32 = kani::any();
    let (e, o) = get_even_and_odd_bits(spread(x));
    assert!(e == x && o == 0);
    let v: u64 = kani::any();
    let (e, o) = get_even_and_odd_bits(v);
    assert!(spread(e) + 2 * spread(o) == v);
}

#[kani::proof_for_contract(super::negate_spreaded)]
#[kani::unwind(34)]
fn sha256_negate_spreaded_contract() {
    let v: u64 = kani::any();
    negate_spreaded(v);
}

#[kani::proof_for_contract(super::spreaded_maj)]
#[kani::unwind(34)]
fn sha256_maj_contract() {
    let s: [u64; 3] = kani::any();
    spreaded_maj(s);
}

/// Ch(E,F,G) as the chip computes it: Odd(~E + ~F) + Odd(~(not E) + ~G), with
/// ~E + ~(not E) = MASK_EVN_64.
#[kani::proof]
#[kani::unwind(34)]
fn sha256_ch_identity() {
    let e: u32 = kani::any();
    let f: u32 = kani::any();
    let g: u32 = kani::any();
    let (se, sf, sg) = (spread(e), spread(f), spread(g));
    let sne = negate_spreaded(se);
    assert!(se + sne == MASK_EVN_64);
    let (_, odd_ef) = get_even_and_odd_bits(se + sf);
    let (_, odd_neg) = get_even_and_odd_bits(sne + sg);
    // the two summands have disjoint support, so the field addition in the gate is the xor
    assert!(odd_ef & odd_neg == 0);
    assert!(odd_ef as u64 + odd_neg as u64 == ch(e, f, g) as u64);
}

#[kani::proof]
#[kani::unwind(34)]
fn sha256_be_limbs_chip_splits() {
    let v: u32 = kani::any();
    assert!(u32_in_be_limbs(v, [10, 9, 11, 2]) == be_limbs(v, [10, 9, 11, 2]));
    assert!(u32_in_be_limbs(v, [7, 12, 2, 5, 6]) == be_limbs(v, [7, 12, 2, 5, 6]));
    assert!(u32_in_be_limbs(v, [12, 1, 1, 1, 7, 3, 4, 3]) == be_limbs(v, [12, 1, 1, 1, 7, 3, 4, 3]));
}

/// Any 4-limb split with non-zero lengths summing to 32: limbs recompose to the value and each
/// limb fits its length.
#[kani::proof]
#[kani::unwind(34)]
fn sha256_be_limbs_any4() {
    let v: u32 = kani::any();
    let l: [usize; 4] = kani::any();
    kani::assume(l[0] >= 1 && l[1] >= 1 && l[2] >= 1 && l[3] >= 1);
    kani::assume(l[0] <= 32 && l[1] <= 32 && l[2] <= 32 && l[3] <= 32);
    kani::assume(l[0] + l[1] + l[2] + l[3] == 32);
    let r = u32_in_be_limbs(v, l);
    let mut acc: u64 = 0;
    let mut i = 0;
    while i < 4 {
        assert!((r[i] as u64) < (1u64 << l[i]));
        acc = (acc << l[i]) | r[i] as u64;
        i += 1;
    }
    assert!(acc == v as u64);
    kani::cover!(l[0] == 29);
}

#[kani::proof]
#[kani::unwind(34)]
fn sha256_big_sigma0() {
    let v: u32 = kani::any();
    let limbs = be_limbs(v, [10, 9, 11, 2]);
    let s = spreaded_Sigma_0(limbs.map(spread));
    let (even, _) = get_even_and_odd_bits(s);
    assert!(even == big_sigma0(v));
}

#[kani::proof]
#[kani::unwind(34)]
fn sha256_big_sigma1() {
    let v: u32 = kani::any();
    let limbs = be_limbs(v, [7, 12, 2, 5, 6]);
    let s = spreaded_Sigma_1(limbs.map(spread));
    let (even, _) = get_even_and_odd_bits(s);
    assert!(even == big_sigma1(v));
}

#[kani::proof]
#[kani::unwind(34)]
fn sha256_small_sigma0() {
    let v: u32 = kani::any();
    let limbs = be_limbs(v, [12, 1, 1, 1, 7, 3, 4, 3]);
    let s = spreaded_sigma_0(limbs.map(spread));
    let (even, _) = get_even_and_odd_bits(s);
    assert!(even == small_sigma0(v));
}

#[kani::proof]
#[kani::unwind(34)]
fn sha256_small_sigma1() {
    let v: u32 = kani::any();
    let limbs = be_limbs(v, [12, 1, 1, 1, 7, 3, 4, 3]);
    let s = spreaded_sigma_1(limbs.map(spread));
    let (even, _) = get_even_and_odd_bits(s);
    assert!(even == small_sigma1(v));
}

/// pow4_ip is the inner product with powers of four, for the widths the chip uses, whenever the
/// mathematical value fits in 64 bits (no wrap-around hides a wrong term).
#[kani::proof]
#[kani::unwind(10)]
fn sha256_pow4_ip_spec() {
    let e: [u8; 4] = kani::any();
    let t: [u64; 4] = kani::any();
    kani::assume(e[0] < 32 && e[1] < 32 && e[2] < 32 && e[3] < 32);
    let mut acc: u128 = 0;
    let mut i = 0;
    while i < 4 {
        acc += (t[i] as u128) << (2 * e[i] as u32);
        i += 1;
    }
    kani::assume(acc <= u64::MAX as u128);
    assert!(pow4_ip(e, t) as u128 == acc);
}
