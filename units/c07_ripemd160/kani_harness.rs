// Kani harness for circuits/src/hash/ripemd160/utils.rs (injected child module).
// rot ranges over its whole documented domain 1..=15, value over all u32.
use super::*;

#[kani::proof]
#[kani::unwind(6)]
fn ripemd_limb_lengths_spec() {
    let rot: u8 = kani::any();
    kani::assume(rot > 0 && rot < 16);
    let (l, k) = limb_lengths(rot);
    assert!(l[0] as u32 + l[1] as u32 + l[2] as u32 + l[3] as u32 == 32);
    assert!(k >= 1 && k < NUM_LIMBS);
    let mut first: u32 = 0;
    let mut i = 0;
    while i < NUM_LIMBS {
        assert!(l[i] <= MAX_LIMB);
        if i < k {
            first += l[i] as u32;
        }
        i += 1;
    }
    assert!(first == rot as u32);
}

/// sum coeffs*limbs = value and sum coeffs_rot*limbs = value.rotate_left(rot), over the integers
/// (no wrap-around: the gate evaluates these sums in the scalar field, not modulo 2^32).
/// rot is enumerated concretely over its whole domain 1..=15 (so the coefficients constant-fold);
/// value is symbolic over all u32.
#[kani::proof]
#[kani::unwind(17)]
fn ripemd_decomposition_and_rotation() {
    let v: u32 = kani::any();
    let mut rot: u8 = 1;
    while rot < 16 {
        let (c, cr) = limb_coeffs(rot);
        let limbs = limb_values(v, rot);
        let (l, _) = limb_lengths(rot);
        let mut s: u64 = 0;
        let mut sr: u64 = 0;
        let mut i = 0;
        while i < NUM_LIMBS {
            assert!((limbs[i] as u64) < (1u64 << l[i]));
            s += c[i] as u64 * limbs[i] as u64;
            sr += cr[i] as u64 * limbs[i] as u64;
            i += 1;
        }
        assert!(s == v as u64);
        assert!(sr == v.rotate_left(rot as u32) as u64);
        rot += 1;
    }
}
