// Kani harness for circuits/src/parsing/table.rs (injected child module).
// Spec side: RFC 4648 section 4 alphabet, defined by ranges (not by a copy of the table).
use super::*;

fn rfc4648_char(v: u8) -> u8 {
    // value -> ASCII code
    if v < 26 {
        b'A' + v
    } else if v < 52 {
        b'a' + (v - 26)
    } else if v < 62 {
        b'0' + (v - 52)
    } else if v == 62 {
        b'+'
    } else {
        b'/'
    }
}

/// BASE64_TABLE[i] = (RFC char of value i, i) for every i < 64; hence values are a bijection onto
/// 0..64 and characters are pairwise distinct.
#[kani::proof]
fn base64_table_is_rfc4648() {
    let i: usize = kani::any();
    kani::assume(i < 64);
    let (c, v) = BASE64_TABLE[i];
    assert!(v as usize == i);
    assert!(c as u32 == rfc4648_char(i as u8) as u32);
    let j: usize = kani::any();
    kani::assume(j < 64 && j != i);
    assert!(BASE64_TABLE[j].0 != c);
    assert!(BASE64_TABLE[j].1 != v);
    assert!(BASE64_TABLE.len() == 64);
}

/// two_entry_table()[i*64+j] = (c_i << 8 | c_j, i << 6 | j); keys pairwise distinct; the default
/// key is the one whose value is 0.
#[kani::proof]
#[kani::unwind(66)]
fn base64_two_entry_table_spec() {
    let t = two_entry_table();
    assert!(t.len() == 4096);
    let i: usize = kani::any();
    let j: usize = kani::any();
    kani::assume(i < 64 && j < 64);
    let (k, v) = t[i * 64 + j];
    assert!(k == ((rfc4648_char(i as u8) as u16) << 8) | rfc4648_char(j as u8) as u16);
    assert!(v == ((i as u16) << 6) | j as u16);
    let i2: usize = kani::any();
    let j2: usize = kani::any();
    kani::assume(i2 < 64 && j2 < 64 && (i2 != i || j2 != j));
    assert!(t[i2 * 64 + j2].0 != k);
    assert!(t[i2 * 64 + j2].1 != v);
    // default element: the key whose decoded value is 0
    assert!(two_entry_default() == t[0].0 as u64 && t[0].1 == 0);
}
