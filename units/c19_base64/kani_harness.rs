// Kani harness for circuits/src/parsing/table.rs (injected child module).
// Spec side: RFC 4648 section 4 alphabet, defined by ranges (not by a copy of the table).
use super::*;

fn rfc4648_char(v: u8) -> u8 {
    // value -> ASCII code
    if v < 26 {
        b'A' + v
    } else if v < 52 {
        b'a' + (v - 26)
    } else if v < 62 {
        b'0' + (v - 52)
    } else if v == 62 {
        b'+'
    } else {
        b'/'
    }
}

/// BASE64_TABLE[i] = (RFC char of value i, i) for every i < 64; hence values are a bijection onto
/// 0..64 and characters are pairwise distinct.
#[kani::proof]
fn base64_table_is_rfc4648() {
    let i: usize = kani::any();
    kani::assume(i < 64);
    let (c, v) = BASE64_TABLE[i];
    assert!(v as usize == i);
    assert!(c as u32 == rfc4648_char(i as u8) as u32);
    let j: usize = kani::any();
    kani::assume(j < 64 && j != i);
    assert!(BASE64_TABLE[j].0 != c);
    assert!(BASE64_TABLE[j].1 != v);
    assert!(BASE64_TABLE.len() == 64);
}

// two_entry_table() is NOT under contract: it builds a 4096-element Vec with vec![..; 4096] and a
// 64x64 iterator loop; CBMC did not finish symbolic execution of the function alone in 50 minutes
// (measured in this sandbox), and Verus cannot ingest `.iter().enumerate()` loops. It is reported as
// uncovered. two_entry_default is checked against the alphabet constant only.
#[kani::proof]
fn base64_two_entry_default_spec() {
    // default key = (char of value 0) << 8 | (char of value 0)
    let c0 = BASE64_TABLE[0].0 as u64;
    assert!(BASE64_TABLE[0].1 == 0);
    assert!(two_entry_default() == (c0 << 8) | c0);
}
