// Kani harness for the window-count arithmetic of curves/src/msm.rs (msm_serial, msm_best).
// The two `let number_of_windows = ...;` initialisers are sliced out of the (generic, rayon-using)
// functions and wrapped as plain functions of their free names; everything around them is dropped.
//
// Contract (from the Booth recoding proved in unit c12_booth: digit_w = W_w + b_{wc-1} - 2^c b_{wc+c-1},
// so  sum_{w<n} digit_w 2^{wc} = scalar - 2^{nc} b_{nc-1}):  the digits of n windows represent the scalar
// iff bit nc-1 of the scalar is zero, i.e. iff  n*c >= bitlen + 1.  And every window index passed to
// get_booth_index must satisfy its precondition (w*c <= 256).
use super::*;

/// msm_serial: scalars fit in max_byte_size bytes (1..=32: field_byte_size <= 32 for every curve here),
/// c in 1..=24 (c = 1, 3 or ceil(ln len) <= 23).
#[kani::proof]
fn windows_serial_contract() {
    let max_byte_size: usize = kani::any();
    let c: usize = kani::any();
    kani::assume(max_byte_size >= 1 && max_byte_size <= 32 && c >= 1 && c <= 24);
    let n = windows_serial(max_byte_size, c);
    assert!(n * c >= max_byte_size * 8 + 1); // top window absorbs the Booth carry
    assert!(n >= 1 && (n - 1) * c <= 256); // get_booth_index precondition for every w < n
    kani::cover!(max_byte_size * 8 % c == 0);
}

/// msm_best: scalars are < 2^num_bits (NUM_BITS of the scalar field, <= 255), c in 1..=24.
#[kani::proof]
fn windows_best_contract() {
    let num_bits: usize = kani::any();
    let c: usize = kani::any();
    kani::assume(num_bits >= 1 && num_bits <= 255 && c >= 1 && c <= 24);
    let n = windows_best(num_bits, c);
    assert!(n * c >= num_bits + 1);
    assert!(n >= 1 && (n - 1) * c <= 256);
    kani::cover!(num_bits % c == 0);
}
