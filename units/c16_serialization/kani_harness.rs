// Kani harness for circuits/src/parsing/serialization.rs (injected child module).
// Contract of `Serialize::deserialize(buf)` taken from the trait documentation and property C16:
//   * total: returns Ok or Err for every buffer, never panics / overflows / aborts;
//   * Ok  => the value is the little-endian decoding of the consumed prefix and `buf` is advanced by
//            exactly the encoded size;
//   * no allocation driven by an unchecked length field: a decoded Vec's capacity is bounded by the
//     number of input bytes.
// Buffers are symbolic in content AND length up to BUF (bounded in length; complete with respect to
// header / length-field handling since every header byte is symbolic).
// `format!` on the error paths is replaced by a stub (CBMC cost; the message text is irrelevant to
// the contract) -- listed in the evidence trusted base.
use super::*;

const BUF: usize = 24;

fn stub_format(_args: core::fmt::Arguments<'_>) -> String {
    String::new()
}

fn le64(d: &[u8]) -> u64 {
    let mut v: u64 = 0;
    let mut i = 0;
    while i < 8 {
        v |= (d[i] as u64) << (8 * i);
        i += 1;
    }
    v
}

macro_rules! sym_buf {
    ($data:ident, $n:ident, $buf:ident) => {
        sym_buf!($data, $n, $buf, BUF)
    };
    ($data:ident, $n:ident, $buf:ident, $cap:expr) => {
        let $data: [u8; $cap] = kani::any();
        let $n: usize = kani::any();
        kani::assume($n <= $cap);
        let mut $buf: &[u8] = &$data[..$n];
    };
}

// Vec harnesses: 8-byte length field + up to VEC_TAIL payload bytes.
const VEC_BUF: usize = 8 + 4;
const VEC_BUF_WIDE: usize = 8 + 18;

#[kani::proof]
#[kani::unwind(10)]
#[kani::stub(alloc::fmt::format, stub_format)]
fn ser_u8_contract() {
    sym_buf!(data, n, buf);
    match u8::deserialize(&mut buf) {
        Ok(v) => assert!(n >= 1 && v == data[0] && buf.len() == n - 1),
        Err(_) => assert!(n < 1),
    }
}

#[kani::proof]
#[kani::unwind(10)]
#[kani::stub(alloc::fmt::format, stub_format)]
fn ser_u64_contract() {
    sym_buf!(data, n, buf);
    match u64::deserialize(&mut buf) {
        Ok(v) => assert!(n >= 8 && v == le64(&data) && buf.len() == n - 8),
        Err(_) => assert!(n < 8),
    }
}

#[kani::proof]
#[kani::unwind(10)]
#[kani::stub(alloc::fmt::format, stub_format)]
fn ser_usize_contract() {
    sym_buf!(data, n, buf);
    match usize::deserialize(&mut buf) {
        Ok(v) => assert!(n >= 8 && v as u64 == le64(&data) && buf.len() == n - 8),
        Err(_) => assert!(n < 8),
    }
}

#[kani::proof]
#[kani::unwind(10)]
#[kani::stub(alloc::fmt::format, stub_format)]
fn ser_bool_contract() {
    sym_buf!(data, n, buf);
    match bool::deserialize(&mut buf) {
        Ok(v) => assert!(n >= 1 && v == (data[0] == 1) && buf.len() == n - 1),
        Err(_) => assert!(n < 1),
    }
}

#[kani::proof]
#[kani::unwind(10)]
#[kani::stub(alloc::fmt::format, stub_format)]
fn ser_option_u64_contract() {
    sym_buf!(data, n, buf);
    match Option::<u64>::deserialize(&mut buf) {
        Ok(None) => assert!(n >= 1 && data[0] != 1 && buf.len() == n - 1),
        Ok(Some(v)) => assert!(n >= 9 && data[0] == 1 && v == le64(&data[1..]) && buf.len() == n - 9),
        Err(_) => assert!(n < 1 || (data[0] == 1 && n < 9)),
    }
}

#[kani::proof]
#[kani::unwind(10)]
#[kani::stub(alloc::fmt::format, stub_format)]
fn ser_pair_contract() {
    sym_buf!(data, n, buf);
    match <(u8, u64)>::deserialize(&mut buf) {
        Ok((a, b)) => assert!(n >= 9 && a == data[0] && b == le64(&data[1..]) && buf.len() == n - 9),
        Err(_) => assert!(n < 9),
    }
}

#[kani::proof]
#[kani::unwind(10)]
#[kani::stub(alloc::fmt::format, stub_format)]
fn ser_triple_contract() {
    sym_buf!(data, n, buf);
    match <(u8, u64, bool)>::deserialize(&mut buf) {
        Ok((a, b, c)) => {
            assert!(n >= 10 && a == data[0] && b == le64(&data[1..]) && c == (data[9] == 1) && buf.len() == n - 10)
        }
        Err(_) => assert!(n < 10),
    }
}

/// Vec<u8>: the length field is untrusted. Ok iff the announced number of elements is present.
#[kani::proof]
#[kani::unwind(10)]
#[kani::stub(alloc::fmt::format, stub_format)]
fn ser_vec_u8_contract() {
    sym_buf!(data, n, buf, VEC_BUF);
    match Vec::<u8>::deserialize(&mut buf) {
        Ok(v) => {
            assert!(n >= 8);
            let len = le64(&data);
            assert!(len <= (n - 8) as u64);
            assert!(v.len() as u64 == len && buf.len() == n - 8 - v.len());
            assert!(v.capacity() <= n); // allocation bounded by the input size
            let i: usize = kani::any();
            kani::assume(i < v.len());
            assert!(v[i] == data[8 + i]);
        }
        Err(_) => assert!(n < 8 || le64(&data) > (n - 8) as u64),
    }
}

/// Vec<u64> and Vec<(usize, u8)> (element types of the shipped automaton format): total for every
/// length field, including lengths whose byte size overflows isize.
#[kani::proof]
#[kani::unwind(10)]
#[kani::stub(alloc::fmt::format, stub_format)]
fn ser_vec_u64_total() {
    sym_buf!(data, n, buf, VEC_BUF_WIDE);
    match Vec::<u64>::deserialize(&mut buf) {
        Ok(v) => {
            assert!(n >= 8 && v.len() as u64 == le64(&data) && buf.len() == n - 8 - 8 * v.len());
            assert!(v.capacity() <= n);
        }
        Err(_) => assert!(n < 8 || le64(&data) > ((n - 8) / 8) as u64),
    }
}

#[kani::proof]
#[kani::unwind(10)]
#[kani::stub(alloc::fmt::format, stub_format)]
fn ser_vec_pair_total() {
    sym_buf!(data, n, buf, VEC_BUF_WIDE);
    match Vec::<(usize, u8)>::deserialize(&mut buf) {
        Ok(v) => {
            assert!(n >= 8 && v.len() as u64 == le64(&data) && buf.len() == n - 8 - 9 * v.len());
            assert!(v.capacity() <= n);
        }
        Err(_) => assert!(n < 8 || le64(&data) > ((n - 8) / 9) as u64),
    }
}
