// Kani harness for curves/src/msm.rs::get_booth_index (injected child module of msm.rs).
// Contract (inserted as kani::requires/ensures above the real fn, see unit.json):
//   requires el.len() == 32, 1 <= c <= CAP, w*c <= 256
//   ensures  digit = W + b_{wc-1} - 2^c * b_{wc+c-1}  and  |digit| <= 2^(c-1)
// where W is the c-bit window of the little-endian scalar starting at bit wc, b_i its bits
// (b_{-1} = 0, b_i = 0 for i >= 256).  Written from the definition of radix-2^c Booth recoding.
use super::*;

pub(super) fn bit(el: &[u8], i: usize) -> i64 {
    if i < 8 * el.len() {
        ((el[i / 8] >> (i % 8)) & 1) as i64
    } else {
        0
    }
}

pub(super) fn spec_digit(w: usize, c: usize, el: &[u8]) -> i64 {
    let lo = w * c;
    let mut win: i64 = 0;
    let mut i = 0;
    while i < c {
        win += bit(el, lo + i) << i;
        i += 1;
    }
    let prev = if lo == 0 { 0 } else { bit(el, lo - 1) };
    win + prev - (bit(el, lo + c - 1) << c)
}

pub(super) const BOOTH_CAP: usize = 24;

pub(super) fn pre(w: usize, c: usize, el: &[u8], cap: usize) -> bool {
    el.len() == 32 && c >= 1 && c <= cap && w <= 256 && w * c <= 256
}

pub(super) fn post(r: i32, w: usize, c: usize, el: &[u8]) -> bool {
    let d = spec_digit(w, c, el);
    r as i64 == d && d <= (1i64 << (c - 1)) && d >= -(1i64 << (c - 1))
}

// Harness form of the contract (assume pre / call / assert post).  The attribute form
// (#[kani::requires/ensures] + proof_for_contract) was tried first and does not terminate within
// 15 minutes here: Kani's contract instrumentation of the `&[u8]` argument (havoc + write-set
// tracking) dominates; the pre/postcondition below are the same predicates.
#[kani::proof]
#[kani::unwind(34)]
fn booth_digit_contract() {
    let el: [u8; 32] = kani::any();
    let c: usize = kani::any();
    let w: usize = kani::any();
    kani::assume(pre(w, c, &el, BOOTH_CAP));
    let r = get_booth_index(w, c, &el);
    assert!(post(r, w, c, &el));
}

/// reachability behind the precondition: the extreme corners are inside it
#[kani::proof]
#[kani::unwind(34)]
fn booth_pre_reachable() {
    let el: [u8; 32] = kani::any();
    let c: usize = kani::any();
    let w: usize = kani::any();
    kani::assume(pre(w, c, &el, 24));
    kani::cover!(c == 24 && w == 10);
    kani::cover!(c == 1 && w == 256);
    kani::cover!(w == 0);
    let r = get_booth_index(w, c, &el);
    kani::cover!(r < 0);
    kani::cover!(r > 0);
}
