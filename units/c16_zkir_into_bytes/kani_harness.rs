// Contracts on the length arithmetic of the IR operation IntoBytes(n) (sub-expression slices; n is a
// parameter of an untrusted program).
use super::*;

#[kani::proof]
#[kani::unwind(34)]
fn native_rejects_contract() {
    let n: usize = kani::any();
    let bytes: [u8; 32] = kani::any();
    let got = native_rejects(n, bytes); // must not panic
    if n > 32 {
        assert!(got);
    } else {
        let mut tail_nonzero = false;
        let mut i = 0;
        while i < 32 {
            if i >= n && bytes[i] != 0 {
                tail_nonzero = true;
            }
            i += 1;
        }
        assert!(got == tail_nonzero);
    }
}

#[kani::proof]
#[kani::unwind(8)]
fn incircuit_tail_contract() {
    let buf: [u8; 6] = kani::any();
    let len: usize = kani::any();
    kani::assume(len <= 6);
    let n: usize = kani::any();
    let got = incircuit_tail_len(&buf[..len], n); // must not panic
    assert!(got == if n >= len { 0 } else { len - n });
}
