// Contract of zkir's Arity::check (extracted verbatim; Operation / Error are pass-through stand-ins).
// Loop-free, full usize domain: a complete proof.
use super::*;

#[kani::proof]
fn arity_check_contract() {
    let len: usize = kani::any();
    let n: usize = kani::any();
    let k: u8 = kani::any();
    kani::assume(k < 3);
    let a = match k {
        0 => Arity::Fixed(n),
        1 => Arity::Some,
        _ => Arity::SomeEven,
    };
    let ok = a.check(len, &Operation).is_ok();
    let want = match k {
        0 => len == n,
        1 => len >= 1,
        _ => len >= 2 && len % 2 == 0,
    };
    assert!(ok == want);
    kani::cover!(ok && k == 2);
    kani::cover!(!ok && k == 0);
}
