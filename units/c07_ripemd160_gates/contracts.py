"""Contracts for the custom gates of the RIPEMD-160 chip (circuits/src/hash/ripemd160/ripemd160_chip.rs),
for PolyVC.  The rotation gate is generic in its coefficient cells (they are filled from
utils::limb_coeffs, proved by the Kani unit c07_ripemd160 to recompose the word and its left rotation);
its contract is that it enforces exactly  sum coef_i limb_i = w  and  sum coef_rot_i limb_i = rot_w."""
import sympy as sp

from sha_gate_spec import Word, gate as _gate, make_env, need  # noqa: F401

PROP = "C07"
LABEL = "ripemd160_gates"
FILE = "circuits/src/hash/ripemd160/ripemd160_chip.rs"
ITEM = ["impl<F: CircuitField> ComposableChip<F> for RipeMD160Chip<F>", "fn configure"]
TRUSTED = ["assumed contract: expr_pow2_ip / expr_pow4_ip (re-exported from sha256/utils.rs) return sum 2^e_i*t_i / sum 4^e_i*t_i"]
W = Word(32)
EOL = [11, 11, 10]


def gate(name, selector, spec_fn, clause):
    return _gate(ITEM, name, selector, spec_fn, clause)


def spr_sum(loc):
    a, b, c = need(loc, ["sA", "sB", "sC"])
    e = W.weighted(EOL, need(loc, ["s_evn_11a", "s_evn_11b", "s_evn_010"]), 4)
    o = W.weighted(EOL, need(loc, ["s_odd_11a", "s_odd_11b", "s_odd_010"]), 4)
    return [(a + b + c) - (e + 2 * o)]


def spec_11_11_10(loc):
    p = need(loc, ["p11a", "p11b", "p_10"])
    (o,) = need(loc, ["output"])
    return [W.weighted(EOL, p, 2) - o]


def spec_rot(loc):
    l = need(loc, ["limb_a", "limb_b", "limb_c", "limb_d"])
    c = need(loc, ["coef_a", "coef_b", "coef_c", "coef_d"])
    cr = need(loc, ["coef_a_rot", "coef_b_rot", "coef_c_rot", "coef_d_rot"])
    w, rw = need(loc, ["w", "rot_w"])
    return [sum(x * y for x, y in zip(c, l)) - w, sum(x * y for x, y in zip(cr, l)) - rw]


def spec_add(loc):
    a, b, c = need(loc, ["a", "b", "c"])
    return [a + b - c]


def spec_add_mod(loc):
    a, b, c, d_, carry, res = need(loc, ["a", "b", "c", "d", "carry", "res"])
    return [a + b + c + d_ - res - carry * 2**32]


FUNCTIONS = {
    "dec_11_11_10": gate("11-11-10 decomposition", "q_11_11_10", spec_11_11_10, "output = 2^21 p11a + 2^10 p11b + p10"),
    "spr_sum_even": gate("spreaded sum with even output", "q_spr_sum_evn", spr_sum, "~A + ~B + ~C = Evn + 2 Odd (11-11-10 layout)"),
    "spr_sum_odd": gate("spreaded sum with odd output", "q_spr_sum_odd", spr_sum, "~A + ~B + ~C = Evn + 2 Odd (11-11-10 layout)"),
    "left_rotation": gate("left rotation", "q_left_rot", spec_rot, "sum coef_i limb_i = w and sum coef_rot_i limb_i = rot_w"),
    "addition": gate("addition", "q_add", spec_add, "a + b = c"),
    "addition_mod_2_32": gate("addition mod 2^32", "q_mod_add", spec_add_mod, "a + b + c + d = res + 2^32 carry"),
}
