// Pure specification lemma (no extracted code): the radix-2^c Booth digits that get_booth_index is
// proved to return (Kani unit c12_booth: digit_w = W_w + b_{wc-1} - 2^c b_{wc+c-1}) sum to the scalar
// once the number of windows n satisfies n*c >= bitlen + 1 (Kani unit c12_windows proves that for the
// window counts of msm_serial and msm_best).  Together: the signed-digit recoding consumed by every
// Rust MSM path represents exactly the scalar.
use vstd::arithmetic::power2::*;
use vstd::arithmetic::div_mod::*;
use vstd::arithmetic::mul::*;

spec fn bit(s: nat, i: nat) -> int { ((s / pow2(i)) % 2) as int }

spec fn win(s: nat, lo: nat, c: nat) -> int { ((s / pow2(lo)) % pow2(c)) as int }

spec fn digit(s: nat, w: nat, c: nat) -> int {
    win(s, w * c, c) + (if w * c == 0 { 0int } else { bit(s, (w * c - 1) as nat) }) - pow2(c) * bit(s, (w * c + c - 1) as nat)
}

spec fn booth_sum(s: nat, n: nat, c: nat) -> int
    decreases n
{
    if n == 0 { 0 } else { booth_sum(s, (n - 1) as nat, c) + digit(s, (n - 1) as nat, c) * pow2(((n - 1) * c) as nat) }
}

/// s % 2^(lo+c) = s % 2^lo + 2^lo * ((s / 2^lo) % 2^c)
proof fn lemma_mod_split(s: nat, lo: nat, c: nat)
    ensures (s % pow2(lo + c)) as int == (s % pow2(lo)) as int + pow2(lo) * win(s, lo, c),
{
    lemma_pow2_pos(lo);
    lemma_pow2_pos(c);
    lemma_pow2_adds(lo, c);
    lemma_mod_breakdown(s as int, pow2(lo) as int, pow2(c) as int);
}

/// the top bit of a c-bit window:  W = (W % 2^(c-1)) + 2^(c-1) * bit(lo + c - 1)   is not needed; what is
/// needed is bit(s, lo + c - 1) = (s / 2^(lo+c-1)) % 2, already the definition.

proof fn lemma_booth_sum(s: nat, n: nat, c: nat)
    requires n >= 1, c >= 1,
    ensures booth_sum(s, n, c) == (s % pow2(n * c)) as int - pow2(n * c) * bit(s, (n * c - 1) as nat),
    decreases n,
{
    if n == 1 {
        assert(booth_sum(s, 0, c) == 0);
        assert(pow2(0) == 1) by { lemma2_to64(); }
        assert((0 * c) as nat == 0);
        assert(1 * c == c);
        // digit(s,0,c) = win(s,0,c) - 2^c b_{c-1};  win(s,0,c) = s % 2^c
        assert(s / 1 == s);
        assert(booth_sum(s, 1, c) == digit(s, 0, c) * pow2(0));
        assert(digit(s, 0, c) == win(s, 0, c) - pow2(c) * bit(s, (c - 1) as nat));
    } else {
        let m = (n - 1) as nat;
        lemma_booth_sum(s, m, c);
        let lo = m * c;
        assert(lo >= 1) by { lemma_mul_strictly_positive(m as int, c as int); }
        assert(n * c == lo + c) by { lemma_mul_is_distributive_add_other_way(c as int, m as int, 1); }
        lemma_mod_split(s, lo, c);
        let p = pow2(lo) as int;
        let d = digit(s, m, c);
        let b_prev = bit(s, (lo - 1) as nat);
        let b_top = bit(s, (lo + c - 1) as nat);
        assert(d == win(s, lo, c) + b_prev - pow2(c) * b_top);
        lemma_pow2_adds(lo, c);
        assert(pow2(lo + c) == pow2(lo) * pow2(c));
        // booth_sum(n) = s%2^lo - p*b_prev + d*p = s%2^lo + p*W - p*2^c*b_top
        assert(d * p == win(s, lo, c) * p + b_prev * p - (pow2(c) * b_top) * p) by (nonlinear_arith)
            requires d == win(s, lo, c) + b_prev - pow2(c) * b_top;
        assert((pow2(c) * b_top) * p == pow2(lo + c) * b_top) by (nonlinear_arith)
            requires pow2(lo + c) == pow2(lo) * pow2(c), p == pow2(lo) as int;
        assert(win(s, lo, c) * p == p * win(s, lo, c)) by (nonlinear_arith);
        assert(b_prev * p == p * b_prev) by (nonlinear_arith);
        assert(booth_sum(s, n, c) == booth_sum(s, m, c) + d * pow2((m * c) as nat));
    }
}

/// Corollary used by the MSM callers: with n windows such that n*c >= bitlen + 1 the digits represent s.
proof fn lemma_booth_represents(s: nat, n: nat, c: nat, bits: nat)
    requires n >= 1, c >= 1, s < pow2(bits), n * c >= bits + 1,
    ensures booth_sum(s, n, c) == s as int,
{
    lemma_booth_sum(s, n, c);
    let k = (n * c - 1) as nat;
    if bits < k { lemma_pow2_strictly_increases(bits, k); }
    assert(s < pow2(k));
    lemma_pow2_pos(k);
    lemma_basic_div(s as int, pow2(k) as int);
    assert(s / pow2(k) == 0);
    assert(bit(s, k) == 0);
    lemma_pow2_strictly_increases(k, n * c);
    lemma_small_mod(s, pow2(n * c));
}
