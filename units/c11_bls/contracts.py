"""Contracts for the Rust-level coordinate functions of BLS12-381 G1/G2 (curves/src/bls12_381/g1.rs,
g2.rs), for PolyVC.

Assumed representation contract (blst, C; probed against the real code): a `blst_p1 {x, y, z}` denotes
the affine point (x/z^2, y/z^3) -- Jacobian coordinates -- and z = 0 denotes the identity.  `x()`,
`y()`, `z()` and `from_raw_unchecked` read / write those raw fields (one-line Rust, inlined here).
`is_identity()` and `is_on_curve()` are blst calls: opaque atoms.

Contracts (from the trait documentation "Return the Jacobian coordinates of this point" /
"Obtains a point given Jacobian coordinates X:Y:Z" and property C11 "coordinate constructors and
accessors are mutually consistent with the coordinate system they name"):
  jacobian_coordinates(p) = (X, Y, Z) with X/Z^2 = x/z^2, Y/Z^3 = y/z^3
  new_jacobian(X, Y, Z)   = Some(p) => p denotes (X/Z^2, Y/Z^3); Z = 0 => p is the identity
  ct_eq(p, q)             = both identity, or neither and the denoted affine points are equal
"""
import re

import sympy as sp

from polyvc import Env, Opt, Struct, Tuple, Unsupported, b_and, b_not, b_or, std_field_env

PROP = "C11"
LABEL = "bls"
FILE = "curves/src/bls12_381/g1.rs"
zeta = sp.Symbol("zeta")


def proj(ty, p):
    return Struct(ty, {f: sp.Symbol(p + f) for f in ("x", "y", "z")}), p


def make_env():
    env = Env()
    std_field_env(env, base_names=("Fp", "Fp2", "Base", "Self"))
    env.consts[("ZETA_BASE",)] = zeta
    env.consts[("Fp2", "ZETA")] = zeta
    env.consts[("Fp", "ZETA")] = zeta
    for ty in ("G1Projective", "G2Projective", "G1Affine", "G2Affine"):
        for f in ("x", "y", "z"):
            env.methods[(ty, f)] = (lambda f: lambda en, r, a: r.fields[f])(f)
        env.methods[(ty, "is_identity")] = lambda en, r, a: ("atom", "is_identity(%s)" % r.fields["_name"])
        env.methods[(ty, "is_on_curve")] = lambda en, r, a: ("atom", "is_on_curve(result)")
        env.calls[(ty, "from_raw_unchecked")] = (lambda ty: lambda en, a: Struct(ty, {"x": a[0], "y": a[1], "z": a[2], "_name": "result"}))(ty)
    return env


def pin(ty, name):
    s = Struct(ty, {f: sp.Symbol(name + "_" + f) for f in ("x", "y", "z")})
    s.fields["_name"] = name
    return s


def ain(ty, name):
    s = Struct(ty, {f: sp.Symbol(name + "_" + f) for f in ("x", "y")})
    s.fields["_name"] = name
    return s


def jac_goals(env, out, loc):
    p = loc["self"].fields
    if not isinstance(out, Tuple) or len(out.items) != 3:
        raise Unsupported("result is not a triple")
    X, Y, Z = out.items
    return [("X_over_Z2_is_x_over_z2", X * p["z"] ** 2 - p["x"] * Z ** 2),
            ("Y_over_Z3_is_y_over_z3", Y * p["z"] ** 3 - p["y"] * Z ** 3),
            ("Z_zero_iff_z_zero", Z - p["z"])]


def newjac_inputs():
    return {"x": sp.Symbol("X"), "y": sp.Symbol("Y"), "z": sp.Symbol("Z")}


def newjac_nonzero(env, out, loc):
    if not isinstance(out, Opt) or not isinstance(out.value, Struct):
        raise Unsupported("result is not CtOption<point>")
    p = out.value.fields
    return [("x_over_z2_is_X_over_Z2", p["x"] * loc["z"] ** 2 - loc["x"] * p["z"] ** 2),
            ("y_over_z3_is_Y_over_Z3", p["y"] * loc["z"] ** 3 - loc["y"] * p["z"] ** 3),
            ("z_is_Z", p["z"] - loc["z"])]


def newjac_zero(env, out, loc):
    p = out.value.fields
    return [("identity_when_Z_zero", p["z"])]


def newjac(ty, file):
    return {"file": file, "item": ["impl CurveExt for " + ty, "fn new_jacobian"], "inputs": newjac_inputs, "hyps": lambda loc: [],
            "cases": [{"name": "Z_nonzero.", "case": {"invert": "nonzero", "select": lambda ch: False}, "goals": newjac_nonzero},
                      {"name": "Z_zero.", "case": {"invert": "zero", "select": lambda ch: True}, "goals": newjac_zero,
                       "hyps": lambda loc: [loc["z"]]}],
            "goals": newjac_nonzero,
            "clause": "Z != 0: the constructed point denotes (X/Z^2, Y/Z^3) in blst's Jacobian representation; Z = 0: the identity"}


def newjac_guard(ty):
    def spec(loc):
        return ("atom", "is_on_curve(result)")
    return spec


FUNCTIONS = {}
PREDICATES = {}
for ty, file in (("G1Projective", "curves/src/bls12_381/g1.rs"), ("G2Projective", "curves/src/bls12_381/g2.rs")):
    FUNCTIONS[ty + "::jacobian_coordinates"] = {
        "file": file, "item": ["impl CurveExt for " + ty, "fn jacobian_coordinates"],
        "inputs": (lambda ty: lambda: {"self": pin(ty, "p")})(ty), "hyps": lambda loc: [], "goals": jac_goals,
        "clause": "returned (X,Y,Z) are Jacobian coordinates of the point blst's (x,y,z) denotes: X z^2 = x Z^2, Y z^3 = y Z^3, Z = z"}
    FUNCTIONS[ty + "::new_jacobian"] = newjac(ty, file)

    def ct_spec(loc):
        a, b = loc["self"].fields, loc["other"].fields
        A, B = ("atom", "is_identity(p)"), ("atom", "is_identity(q)")
        return b_or(b_and(A, B), b_and(b_and(b_and(b_not(A), b_not(B)),
                                              ("eq", a["x"] * b["z"] ** 2 - b["x"] * a["z"] ** 2)),
                                        ("eq", a["y"] * b["z"] ** 3 - b["y"] * a["z"] ** 3)))
    PREDICATES["ConstantTimeEq for " + ty] = {
        "file": file, "item": ["impl ConstantTimeEq for " + ty, "fn ct_eq"],
        "inputs": (lambda ty: lambda: {"self": pin(ty, "p"), "other": pin(ty, "q")})(ty), "spec": ct_spec,
        "clause": "true <=> both identity, or neither and x1 z2^2 = x2 z1^2 and y1 z2^3 = y2 z1^3 (equality of the denoted affine points, independent of the Jacobian representative)"}

for ty, file in (("G1Affine", "curves/src/bls12_381/g1.rs"), ("G2Affine", "curves/src/bls12_381/g2.rs")):
    def act_spec(loc):
        a, b = loc["self"].fields, loc["other"].fields
        A, B = ("atom", "is_identity(p)"), ("atom", "is_identity(q)")
        return b_or(b_and(A, B), b_and(b_and(b_and(b_not(A), b_not(B)), ("eq", a["x"] - b["x"])), ("eq", a["y"] - b["y"])))
    PREDICATES["ConstantTimeEq for " + ty] = {
        "file": file, "item": ["impl ConstantTimeEq for " + ty, "fn ct_eq"],
        "inputs": (lambda ty: lambda: {"self": ain(ty, "p"), "other": ain(ty, "q")})(ty), "spec": act_spec,
        "clause": "true <=> both identity, or neither and equal coordinates"}

FUNCTIONS["G1Projective::endo"] = {
    "file": "curves/src/bls12_381/g1.rs", "item": ["impl CurveExt for G1Projective", "fn endo"],
    "inputs": lambda: {"self": pin("G1Projective", "p")}, "hyps": lambda loc: [],
    "goals": lambda env, out, loc: [("x_times_zeta", out.fields["x"] - zeta * loc["self"].fields["x"]),
                                    ("y_kept", out.fields["y"] - loc["self"].fields["y"]), ("z_kept", out.fields["z"] - loc["self"].fields["z"])],
    "clause": "(x, y, z) -> (zeta x, y, z): the denoted affine point (x/z^2, y/z^3) maps to (zeta x/z^2, y/z^3)"}


# ---------------------------------------------------------------- checked point decoders (Rust glue over blst)
# Contract (C11 "checked decoders reject encodings that are non-canonical, off-curve or (where promised)
# outside the prime-order subgroup"; C16 "points that are on the curve (and in the prime-order subgroup
# for compressed points)"): the checked decoder returns Some(p) exactly when blst's raw decoder accepted
# the bytes AND p is on the curve AND (compressed, and G2 uncompressed as coded) p is torsion-free.
# blst's own decoding / on-curve / subgroup routines are opaque atoms (assumed).
def _decoder_env(ty, unchecked_names):
    def mk():
        env = make_env()
        p = Struct(ty, {"x": sp.Symbol("p_x"), "y": sp.Symbol("p_y"), "_name": "p"})
        for n in unchecked_names:
            env.calls[(ty, n)] = lambda en, a, p=p: Opt(p, ("atom", "blst_raw_decode_ok(bytes)"))
        env.methods[(ty, "is_on_curve")] = lambda en, r, a: ("atom", "is_on_curve(%s)" % r.fields["_name"])
        env.methods[(ty, "is_torsion_free")] = lambda en, r, a: ("atom", "is_torsion_free(%s)" % r.fields["_name"])
        return env
    return mk


def _dec_spec(torsion):
    def spec(loc):
        f = b_and(("atom", "blst_raw_decode_ok(bytes)"), ("atom", "is_on_curve(p)"))
        if torsion:
            f = b_and(f, ("atom", "is_torsion_free(p)"))
        return f
    return spec


DECODERS = {}
for ty, file in (("G1Affine", "curves/src/bls12_381/g1.rs"), ("G2Affine", "curves/src/bls12_381/g2.rs")):
    for fn_, unchecked, torsion in (("from_compressed", "from_compressed_unchecked", True),
                                    ("from_uncompressed", "from_uncompressed_unchecked", ty == "G2Affine")):
        PREDICATES["%s::%s" % (ty, fn_)] = {
            "file": file, "item": ["impl " + ty, "fn " + fn_],
            "inputs": lambda: {"bytes": sp.Symbol("bytes")}, "spec": _dec_spec(torsion),
            "env": _decoder_env(ty, [unchecked]), "props": ["C11", "C16"],
            "value": lambda v, loc: isinstance(v, Struct) and v.fields.get("_name") == "p",
            "clause": "Some(p) <=> blst's raw decoder accepted the bytes and p is on the curve%s; p is the decoded point" % (" and torsion-free (prime-order subgroup)" if torsion else ""),
        }


# ---------------------------------------------------------------- routing of the public decoding API
# GroupEncoding::from_bytes / UncompressedEncoding::from_uncompressed / the projective wrappers are
# one-line glue.  Contract: a CHECKED entry point returns Some exactly when the checked affine decoder
# does (and an unchecked one exactly when the unchecked decoder does) -- so no public checked decoder
# bypasses the on-curve / subgroup checks proved above.
def _routing_env(self_ty, aff_ty):
    def mk():
        env = make_env()
        p = Struct(aff_ty, {"x": sp.Symbol("p_x"), "y": sp.Symbol("p_y"), "_name": "p"})
        for recv in (self_ty, aff_ty, "Self"):
            for n in ("from_compressed", "from_uncompressed"):
                env.calls[(recv, n)] = (lambda n: lambda en, a: Opt(p, ("atom", "checked:" + n)))(n)
                env.calls[(recv, n + "_unchecked")] = (lambda n: lambda en, a: Opt(p, ("atom", "unchecked:" + n)))(n)
        env.consts[("Into", "into")] = "Into::into"
        env.methods[("Opt", "map")] = lambda en, r, a: Opt(r.value, r.cond)
        return env
    return mk


def _bytes_input():
    return {"bytes": Struct("Repr", {"0": sp.Symbol("bytes0")})}


for g, file in (("G1", "curves/src/bls12_381/g1.rs"), ("G2", "curves/src/bls12_381/g2.rs")):
    aff, prj = g + "Affine", g + "Projective"
    routes = [
        ("impl GroupEncoding for " + prj, "from_bytes", prj, "checked:from_compressed"),
        ("impl GroupEncoding for " + prj, "from_bytes_unchecked", prj, "unchecked:from_compressed"),
        ("impl GroupEncoding for " + aff, "from_bytes", aff, "checked:from_compressed"),
        ("impl GroupEncoding for " + aff, "from_bytes_unchecked", aff, "unchecked:from_compressed"),
        ("impl UncompressedEncoding for " + aff, "from_uncompressed", aff, "checked:from_uncompressed"),
        ("impl UncompressedEncoding for " + aff, "from_uncompressed_unchecked", aff, "unchecked:from_uncompressed"),
        ("impl " + prj, "from_compressed", prj, "checked:from_compressed"),
        ("impl " + prj, "from_compressed_unchecked", prj, "unchecked:from_compressed"),
    ]
    for impl, fn_, self_ty, atom in routes:
        PREDICATES["%s::%s (%s)" % (self_ty, fn_, impl.split()[1])] = {
            "file": file, "item": [impl, "fn " + fn_], "inputs": _bytes_input,
            "spec": (lambda atom: lambda loc: ("atom", atom))(atom),
            "env": _routing_env(self_ty, aff), "props": ["C11", "C16"],
            "value": lambda v, loc: isinstance(v, Struct) and v.fields.get("_name") == "p",
            "clause": "returns Some exactly when %s does, on the same bytes (checked entry points never route to an unchecked decoder)" % atom.replace(":", " "),
        }


def constants_check(read):
    text = read("curves/src/bls12_381/fp.rs")
    P = 0x1a0111ea397fe69a4b1ba7b6434bacd764774b84f38512bf6730d2a0f6b0f6241eabfffeb153ffffb9feffffffffaaab
    m = re.search(r"pub const ZETA_BASE: Fp = Fp\(blst_fp \{\s*l: \[(.*?)\]", text, re.S)
    if not m:
        raise Unsupported("lost anchor: ZETA_BASE")
    ls = [int(x.strip().replace("_", ""), 16) for x in m.group(1).split(",") if x.strip()]
    mont = sum(l << (64 * i) for i, l in enumerate(ls))
    z = mont * pow(1 << 384, -1, P) % P
    return [("constants.ZETA_BASE", mont < P and pow(z, 3, P) == 1 and z != 1,
             "ZETA_BASE (Montgomery limbs in the source) is a primitive cube root of unity mod p")]
