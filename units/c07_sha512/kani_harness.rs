// Kani harness for circuits/src/hash/sha512/utils.rs (injected child module; see c07_sha256).
// Full-domain harnesses; loops bounded by the 64-bit word width (unwind 66).
use super::*;

fn spec_spread(x: u64) -> u128 {
    let mut r: u128 = 0;
    let mut i = 0;
    while i < 64 {
        if x & (1u64 << i) != 0 {
            r += 1u128 << (2 * i);
        }
        i += 1;
    }
    r
}

fn even_bits(v: u128) -> u64 {
    let mut r: u64 = 0;
    let mut i = 0;
    while i < 64 {
        if v & (1u128 << (2 * i)) != 0 {
            r |= 1u64 << i;
        }
        i += 1;
    }
    r
}

fn rotr(x: u64, n: u32) -> u64 {
    x.rotate_right(n)
}
fn big_sigma0(x: u64) -> u64 {
    rotr(x, 28) ^ rotr(x, 34) ^ rotr(x, 39)
}
fn big_sigma1(x: u64) -> u64 {
    rotr(x, 14) ^ rotr(x, 18) ^ rotr(x, 41)
}
fn small_sigma0(x: u64) -> u64 {
    rotr(x, 1) ^ rotr(x, 8) ^ (x >> 7)
}
fn small_sigma1(x: u64) -> u64 {
    rotr(x, 19) ^ rotr(x, 61) ^ (x >> 6)
}

fn be_limbs<const N: usize>(v: u64, lens: [usize; N]) -> [u64; N] {
    let mut out = [0u64; N];
    let mut rest = v as u128;
    let mut i = N;
    while i > 0 {
        i -= 1;
        let m = 1u128 << lens[i];
        out[i] = (rest % m) as u64;
        rest /= m;
    }
    out
}

#[kani::proof]
#[kani::unwind(66)]
fn sha512_spread_spec() {
    let x: u64 = kani::any();
    let s = spread(x);
    assert!(s == spec_spread(x));
    assert!(s & MASK_ODD_128 == 0);
}

#[kani::proof]
#[kani::unwind(66)]
fn sha512_even_odd_spec() {
    let v: u128 = kani::any();
    let (e, o) = get_even_and_odd_bits(v);
    assert!(e == even_bits(v));
    assert!(o == even_bits(v >> 1));
}

#[kani::proof]
#[kani::unwind(66)]
fn sha512_spread_roundtrip() {
    let x: u64 = kani::any();
    let (e, o) = get_even_and_odd_bits(spread(x));
    assert!(e == x && o == 0);
    let v: u128 = kani::any();
    let (e, o) = get_even_and_odd_bits(v);
    assert!(spread(e) + 2 * spread(o) == v);
}

#[kani::proof]
#[kani::unwind(66)]
fn sha512_negate_spreaded_spec() {
    let x: u64 = kani::any();
    let n = negate_spreaded(spread(x));
    assert!(n == spec_spread(!x));
    assert!(n + spread(x) == MASK_EVN_128);
}

#[kani::proof]
#[kani::unwind(66)]
fn sha512_maj_spec() {
    let a: u64 = kani::any();
    let b: u64 = kani::any();
    let c: u64 = kani::any();
    let (even, odd) = get_even_and_odd_bits(spreaded_maj([spread(a), spread(b), spread(c)]));
    assert!(even == a ^ b ^ c);
    assert!(odd == (a & b) ^ (a & c) ^ (b & c));
}

#[kani::proof]
#[kani::unwind(66)]
fn sha512_ch_identity() {
    let e: u64 = kani::any();
    let f: u64 = kani::any();
    let g: u64 = kani::any();
    let (se, sf, sg) = (spread(e), spread(f), spread(g));
    let sne = negate_spreaded(se);
    let (_, odd_ef) = get_even_and_odd_bits(se + sf);
    let (_, odd_neg) = get_even_and_odd_bits(sne + sg);
    assert!(odd_ef & odd_neg == 0);
    assert!(odd_ef as u128 + odd_neg as u128 == ((e & f) ^ (!e & g)) as u128);
}

fn same<const N: usize>(a: [u64; N], b: [u64; N]) -> bool {
    // element-wise (array == lowers to memcmp over N*8 bytes, beyond the word-width unwind bound)
    let mut i = 0;
    let mut ok = true;
    while i < N {
        ok = ok && a[i] == b[i];
        i += 1;
    }
    ok
}

#[kani::proof]
#[kani::unwind(66)]
fn sha512_be_limbs_chip_splits() {
    let v: u64 = kani::any();
    assert!(same(u64_in_be_limbs(v, [13, 12, 5, 6, 13, 13, 2]), be_limbs(v, [13, 12, 5, 6, 13, 13, 2])));
    assert!(same(u64_in_be_limbs(v, [13, 10, 13, 10, 4, 13, 1]), be_limbs(v, [13, 10, 13, 10, 4, 13, 1])));
    assert!(same(u64_in_be_limbs(v, [3, 13, 13, 13, 3, 11, 1, 1, 5, 1]), be_limbs(v, [3, 13, 13, 13, 3, 11, 1, 1, 5, 1])));
}

#[kani::proof]
#[kani::unwind(66)]
fn sha512_big_sigma0() {
    let v: u64 = kani::any();
    let limbs = be_limbs(v, [13, 12, 5, 6, 13, 13, 2]);
    let (even, _) = get_even_and_odd_bits(spreaded_Sigma_0(limbs.map(spread)));
    assert!(even == big_sigma0(v));
}

#[kani::proof]
#[kani::unwind(66)]
fn sha512_big_sigma1() {
    let v: u64 = kani::any();
    let limbs = be_limbs(v, [13, 10, 13, 10, 4, 13, 1]);
    let (even, _) = get_even_and_odd_bits(spreaded_Sigma_1(limbs.map(spread)));
    assert!(even == big_sigma1(v));
}

#[kani::proof]
#[kani::unwind(66)]
fn sha512_small_sigma0() {
    let v: u64 = kani::any();
    let limbs = be_limbs(v, [3, 13, 13, 13, 3, 11, 1, 1, 5, 1]);
    let (even, _) = get_even_and_odd_bits(spreaded_sigma_0(limbs.map(spread)));
    assert!(even == small_sigma0(v));
}

#[kani::proof]
#[kani::unwind(66)]
fn sha512_small_sigma1() {
    let v: u64 = kani::any();
    let limbs = be_limbs(v, [3, 13, 13, 13, 3, 11, 1, 1, 5, 1]);
    let (even, _) = get_even_and_odd_bits(spreaded_sigma_1(limbs.map(spread)));
    assert!(even == small_sigma1(v));
}
