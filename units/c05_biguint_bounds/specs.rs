// Specification for circuits/src/biguint/types.rs::bound_of_addition.
// From its documentation: "returns the smallest integer `bound` such that the sum of an integer in
// the range [0, 2^bound1) with an integer in the range [0, 2^bound2) is guaranteed to be in the range
// [0, 2^bound)".  Lazy normalisation in the BigUint gadget is sound only if these are true upper bounds.
use vstd::arithmetic::power2::*;

// TRUSTED: vstd has no specification for core::cmp::max; this is the documented behaviour of
// std::cmp::max on u32 (listed in the evidence trusted base).
#[verifier::allow(undeclared_external_trait)]
pub assume_specification<T: std::cmp::Ord + std::marker::Destruct> [std::cmp::max] (a: T, b: T) -> (r: T)
    ensures
        T::obeys_cmp_spec() ==> r == (if a.cmp_spec(&b) == std::cmp::Ordering::Greater { a } else { b });

spec fn sums_fit(b1: nat, b2: nat, r: nat) -> bool {
    forall|a: nat, b: nat| a < pow2(b1) && b < pow2(b2) ==> #[trigger] (a + b) < pow2(r)
}

spec fn spec_bound(b1: nat, b2: nat) -> nat {
    if b1 == 0 { b2 } else if b2 == 0 { b1 } else { 1 + (if b1 >= b2 { b1 } else { b2 }) }
}

proof fn lemma_pow2_mono(a: nat, b: nat)
    requires a <= b,
    ensures pow2(a) <= pow2(b),
{
    if a < b { lemma_pow2_strictly_increases(a, b); }
}

/// soundness: the returned bound is a true upper bound
proof fn lemma_bound_sound(b1: nat, b2: nat)
    ensures sums_fit(b1, b2, spec_bound(b1, b2)),
{
    lemma2_to64();
    let r = spec_bound(b1, b2);
    if b1 == 0 {
        assert(pow2(0) == 1);
    } else if b2 == 0 {
        assert(pow2(0) == 1);
    } else {
        let m = if b1 >= b2 { b1 } else { b2 };
        lemma_pow2_mono(b1, m);
        lemma_pow2_mono(b2, m);
        lemma_pow2_unfold(m + 1);
        assert(pow2(m + 1) == 2 * pow2(m));
    }
}

/// minimality: no smaller bound works (the maximal operands already need it)
proof fn lemma_bound_minimal(b1: nat, b2: nat)
    ensures spec_bound(b1, b2) > 0 ==> !sums_fit(b1, b2, (spec_bound(b1, b2) - 1) as nat),
{
    lemma2_to64();
    let r = spec_bound(b1, b2);
    lemma_pow2_pos(b1);
    lemma_pow2_pos(b2);
    if r > 0 {
        let a = (pow2(b1) - 1) as nat;
        let b = (pow2(b2) - 1) as nat;
        if b1 == 0 {
            // a = 0, b = 2^b2 - 1 >= 2^(b2-1)
            lemma_pow2_unfold(b2);
            lemma_pow2_pos((b2 - 1) as nat);
            assert(a + b >= pow2((r - 1) as nat));
        } else if b2 == 0 {
            lemma_pow2_unfold(b1);
            lemma_pow2_pos((b1 - 1) as nat);
            assert(a + b >= pow2((r - 1) as nat));
        } else {
            let m = if b1 >= b2 { b1 } else { b2 };
            let lo = if b1 >= b2 { b2 } else { b1 };
            lemma_pow2_mono(1, lo);
            assert(pow2(1) == 2);
            assert(a + b >= pow2(m));
        }
        assert(a < pow2(b1) && b < pow2(b2) && !((a + b) < pow2((r - 1) as nat)));
    }
}
