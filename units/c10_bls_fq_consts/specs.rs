// Published constants of the BLS12-381 scalar field Fq (curves/src/bls12_381/fq.rs).  The constants
// are extracted verbatim from the source; every defining equation below is evaluated by Verus'
// interpreter (`by (compute_only)`) on the extracted limbs.  The run-time arithmetic of Fq is blst's
// and is NOT touched here; the constants are Montgomery representatives (value * 2^256 mod q).

// stand-in for the FFI struct `blst::blst_fr { pub l: [limb_t; 4] }` (layout assumption, listed)
struct blst_fr { l: [u64; 4] }

spec fn val4(a: [u64; 4]) -> int {
    a[0] as int + 0x1_0000_0000_0000_0000int * (a[1] as int + 0x1_0000_0000_0000_0000int * (a[2] as int + 0x1_0000_0000_0000_0000int * (a[3] as int)))
}
spec fn q() -> int { val4(MODULUS) }
spec fn r256() -> int { 0x1_0000_0000_0000_0000int * 0x1_0000_0000_0000_0000int * 0x1_0000_0000_0000_0000int * 0x1_0000_0000_0000_0000int }
spec fn modpow(b: int, e: nat, m: int) -> int
    decreases e
{
    if e == 0 { 1int % m } else if e % 2 == 0 { let h = modpow(b, e / 2, m); (h * h) % m } else { (b * modpow(b, (e - 1) as nat, m)) % m }
}
spec fn p2(n: nat) -> int
    decreases n
{
    if n == 0 { 1int } else { 2 * p2((n - 1) as nat) }
}
spec fn rinv() -> int { modpow(r256() % q(), (q() - 2) as nat, q()) }
spec fn iota(x: Fq) -> int { (val4(x.0.l) * rinv()) % q() }
spec fn reduced(x: Fq) -> bool { val4(x.0.l) < q() }

proof fn lemma_fq_montgomery_constants()
    ensures
        (rinv() * r256()) % q() == 1,
        (1 + INV as int * MODULUS[0] as int) % 0x1_0000_0000_0000_0000int == 0,
        reduced(R), val4(R.0.l) == r256() % q(),
        val4(R2_LIMBS) < q(), val4(R2_LIMBS) == (r256() * r256()) % q(), R2.0.l == R2_LIMBS,
        reduced(R3), val4(R3.0.l) == (r256() * r256() * r256()) % q(),
        val4(ZERO.0.l) == 0,
        p2((NUM_BITS - 1) as nat) <= q() < p2(NUM_BITS as nat),
{
    assert((rinv() * r256()) % q() == 1) by (compute_only);
    assert((1 + INV as int * MODULUS[0] as int) % 0x1_0000_0000_0000_0000int == 0) by (compute_only);
    assert(val4(R.0.l) < q() && val4(R.0.l) == r256() % q()) by (compute_only);
    assert(val4(R2_LIMBS) < q() && val4(R2_LIMBS) == (r256() * r256()) % q()) by (compute_only);
    assert(val4(R3.0.l) < q() && val4(R3.0.l) == (r256() * r256() * r256()) % q()) by (compute_only);
    assert(val4(ZERO.0.l) == 0) by (compute_only);
    assert(p2((NUM_BITS - 1) as nat) <= q() < p2(NUM_BITS as nat)) by (compute_only);
}

proof fn lemma_fq_defining_equations()
    ensures
        reduced(TWO_INV), (2 * iota(TWO_INV)) % q() == 1,
        reduced(GENERATOR), iota(GENERATOR) == 7,
        modpow(7, ((q() - 1) / 2) as nat, q()) == q() - 1,                       // quadratic non-residue
        (q() - 1) % p2(S as nat) == 0, ((q() - 1) / p2(S as nat)) % 2 == 1,       // 2^S * t = q - 1, t odd
        reduced(ROOT_OF_UNITY),
        iota(ROOT_OF_UNITY) == modpow(iota(GENERATOR), ((q() - 1) / p2(S as nat)) as nat, q()),
        modpow(iota(ROOT_OF_UNITY), p2(S as nat) as nat, q()) == 1,
        modpow(iota(ROOT_OF_UNITY), p2((S - 1) as nat) as nat, q()) != 1,           // order exactly 2^S
        reduced(ROOT_OF_UNITY_INV), (iota(ROOT_OF_UNITY_INV) * iota(ROOT_OF_UNITY)) % q() == 1,
        reduced(DELTA), iota(DELTA) == modpow(iota(GENERATOR), p2(S as nat) as nat, q()),
        reduced(ZETA), modpow(iota(ZETA), 3, q()) == 1, iota(ZETA) != 1,            // primitive cube root of unity
{
    assert(val4(TWO_INV.0.l) < q() && (2 * iota(TWO_INV)) % q() == 1) by (compute_only);
    assert(val4(GENERATOR.0.l) < q() && iota(GENERATOR) == 7) by (compute_only);
    assert(modpow(7, ((q() - 1) / 2) as nat, q()) == q() - 1) by (compute_only);
    assert((q() - 1) % p2(S as nat) == 0 && ((q() - 1) / p2(S as nat)) % 2 == 1) by (compute_only);
    assert(val4(ROOT_OF_UNITY.0.l) < q()) by (compute_only);
    assert(iota(ROOT_OF_UNITY) == modpow(iota(GENERATOR), ((q() - 1) / p2(S as nat)) as nat, q())) by (compute_only);
    assert(modpow(iota(ROOT_OF_UNITY), p2(S as nat) as nat, q()) == 1) by (compute_only);
    assert(modpow(iota(ROOT_OF_UNITY), p2((S - 1) as nat) as nat, q()) != 1) by (compute_only);
    assert(val4(ROOT_OF_UNITY_INV.0.l) < q() && (iota(ROOT_OF_UNITY_INV) * iota(ROOT_OF_UNITY)) % q() == 1) by (compute_only);
    assert(val4(DELTA.0.l) < q() && iota(DELTA) == modpow(iota(GENERATOR), p2(S as nat) as nat, q())) by (compute_only);
    assert(val4(ZETA.0.l) < q() && modpow(iota(ZETA), 3, q()) == 1 && iota(ZETA) != 1) by (compute_only);
}
