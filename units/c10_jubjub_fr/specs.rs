// Specification side for the Jubjub scalar field Fr (curves/src/jubjub/fr.rs) and the limb
// primitives of curves/src/arithmetic.rs.  Pure spec/proof code: no executable code here.
//
// val4 / val8 : little-endian limb value, written in Horner form with literal 2^64 factors
//               (keeps every VC linear for Z3);
// q()         : the modulus assembled from the MODULUS_LIMBS constant that ships;
// r256()      : the Montgomery radix R = 2^256;
// congruent   : a == b (mod m).
// Over the abstraction iota(x) = val4(x) * R^-1 mod q the contracts below say that every
// operation is the integer operation modulo q (lemma_field_* at the end).

mod lemmas {
    use vstd::prelude::*;
    pub broadcast proof fn lemma_and_mask(m: u64, b: u64)
        ensures
            b == 0 ==> #[trigger] (m & b) == 0,
            b == 0xffff_ffff_ffff_ffffu64 ==> (m & b) == m,
    {
        assert(b == 0 ==> (m & b) == 0) by (bit_vector);
        assert(b == 0xffff_ffff_ffff_ffffu64 ==> (m & b) == m) by (bit_vector);
    }
}
broadcast use lemmas::lemma_and_mask;

spec fn val4(a: [u64; 4]) -> int {
    a[0] as int + 0x1_0000_0000_0000_0000int * (a[1] as int + 0x1_0000_0000_0000_0000int * (a[2] as int + 0x1_0000_0000_0000_0000int * (a[3] as int)))
}

spec fn ival4(a0: int, a1: int, a2: int, a3: int) -> int {
    a0 + 0x1_0000_0000_0000_0000int * (a1 + 0x1_0000_0000_0000_0000int * (a2 + 0x1_0000_0000_0000_0000int * a3))
}

spec fn val8(r0: u64, r1: u64, r2: u64, r3: u64, r4: u64, r5: u64, r6: u64, r7: u64) -> int {
    ival8(r0 as int, r1 as int, r2 as int, r3 as int, r4 as int, r5 as int, r6 as int, r7 as int)
}

spec fn ival8(r0: int, r1: int, r2: int, r3: int, r4: int, r5: int, r6: int, r7: int) -> int {
    r0 + 0x1_0000_0000_0000_0000int * (r1 + 0x1_0000_0000_0000_0000int * (r2 + 0x1_0000_0000_0000_0000int * (r3
    + 0x1_0000_0000_0000_0000int * (r4 + 0x1_0000_0000_0000_0000int * (r5 + 0x1_0000_0000_0000_0000int * (r6 + 0x1_0000_0000_0000_0000int * r7))))))
}

spec fn q() -> int { val4(MODULUS_LIMBS) }

/// 64x64 product, opaque so that callers of `mac` see a linear VC; lemmas reveal it.
#[verifier::opaque]
spec fn mulu(b: u64, c: u64) -> int { (b as int) * (c as int) }

/// generic opaque product of two integers (row products of the schoolbook multiplication).
#[verifier::opaque]
spec fn muli(a: int, b: int) -> int { a * b }

/// k * q, opaque for the same reason.
#[verifier::opaque]
spec fn kq(k: int) -> int { k * q() }

spec fn p64() -> int { 0x1_0000_0000_0000_0000int }

spec fn r256() -> int { 0x1_0000_0000_0000_0000int * 0x1_0000_0000_0000_0000int * 0x1_0000_0000_0000_0000int * 0x1_0000_0000_0000_0000int }

spec fn congruent(a: int, b: int, m: int) -> bool { (a - b) % m == 0 }

/// representation invariant of a field element
spec fn reduced(x: Fr) -> bool { val4(x.0) < q() }

proof fn lemma_q_bounds()
    ensures 0 < q(), 2 * q() < r256(),
{
    // evaluated on the extracted modulus limbs
    assert(0 < q() && 2 * q() < r256()) by (compute_only);
}

proof fn lemma_val4_bound(a: [u64; 4])
    ensures 0 <= val4(a) < r256(),
{
    assert(val4(a) <= ival4(0xffff_ffff_ffff_ffff, 0xffff_ffff_ffff_ffff, 0xffff_ffff_ffff_ffff, 0xffff_ffff_ffff_ffff));
    assert(ival4(0xffff_ffff_ffff_ffff, 0xffff_ffff_ffff_ffff, 0xffff_ffff_ffff_ffff, 0xffff_ffff_ffff_ffff) < r256()) by (compute_only);
}

proof fn lemma_inv()
    ensures (1 + INV as int * MODULUS_LIMBS[0] as int) % 0x1_0000_0000_0000_0000int == 0
{
    // INV = -(q^-1) mod 2^64, checked on the constants that ship
    assert((1 + (INV as int) * (MODULUS_LIMBS[0] as int)) % 0x1_0000_0000_0000_0000int == 0) by (compute_only);
}

/// The low limb produced by the first mac of each Montgomery round is zero.
proof fn lemma_low_zero(r0: u64, k: u64, hi: int)
    requires
        k as int == (r0 as int * INV as int) % 0x1_0000_0000_0000_0000int,
        0 <= r0 as int + mulu(k, MODULUS_LIMBS[0]) - 0x1_0000_0000_0000_0000int * hi < 0x1_0000_0000_0000_0000int,
    ensures r0 as int + mulu(k, MODULUS_LIMBS[0]) == 0x1_0000_0000_0000_0000int * hi,
{
    reveal(mulu);
    let p = 0x1_0000_0000_0000_0000int;
    let inv = INV as int;
    let m0 = MODULUS_LIMBS[0] as int;
    let r0 = r0 as int;
    let k = k as int;
    let lo = r0 + k * m0 - p * hi;
    lemma_inv();
    vstd::arithmetic::div_mod::lemma_mul_mod_noop_left(r0 * inv, m0, p);
    vstd::arithmetic::div_mod::lemma_add_mod_noop_right(r0, k * m0, p);
    vstd::arithmetic::div_mod::lemma_add_mod_noop_right(r0, (r0 * inv) * m0, p);
    assert((r0 * inv) * m0 == r0 * (inv * m0)) by (nonlinear_arith);
    assert(r0 + r0 * (inv * m0) == r0 * (1 + inv * m0)) by (nonlinear_arith);
    vstd::arithmetic::div_mod::lemma_mul_mod_noop_right(r0, 1 + inv * m0, p);
    assert((r0 + k * m0) % p == 0);
    vstd::arithmetic::div_mod::lemma_fundamental_div_mod_converse(r0 + k * m0, p, hi, lo);
}

/// One round of Montgomery reduction (HAC 14.32) as an integer identity over the limb window.
proof fn lemma_mont_round(x0: int, x1: int, x2: int, x3: int, x4: int, cin: int, k: u64,
    c1: int, c2: int, c3: int, c4: int, y1: int, y2: int, y3: int, y4: int, cout: int)
    requires
        0x1_0000_0000_0000_0000int * c1 == x0 + mulu(k, MODULUS_LIMBS[0]),
        y1 + 0x1_0000_0000_0000_0000int * c2 == x1 + mulu(k, MODULUS_LIMBS[1]) + c1,
        y2 + 0x1_0000_0000_0000_0000int * c3 == x2 + mulu(k, MODULUS_LIMBS[2]) + c2,
        y3 + 0x1_0000_0000_0000_0000int * c4 == x3 + mulu(k, MODULUS_LIMBS[3]) + c3,
        y4 + 0x1_0000_0000_0000_0000int * cout == x4 + cin + c4,
    ensures
        0x1_0000_0000_0000_0000int * (y1 + 0x1_0000_0000_0000_0000int * (y2 + 0x1_0000_0000_0000_0000int * (y3 + 0x1_0000_0000_0000_0000int * (y4 + 0x1_0000_0000_0000_0000int * cout))))
            == x0 + 0x1_0000_0000_0000_0000int * (x1 + 0x1_0000_0000_0000_0000int * (x2 + 0x1_0000_0000_0000_0000int * (x3 + 0x1_0000_0000_0000_0000int * (x4 + cin))))
               + kq(k as int),
{
    reveal(mulu);
    reveal(kq);
    let p = 0x1_0000_0000_0000_0000int;
    let kk = k as int;
    let (m0, m1, m2, m3) = (MODULUS_LIMBS[0] as int, MODULUS_LIMBS[1] as int, MODULUS_LIMBS[2] as int, MODULUS_LIMBS[3] as int);
    assert(q() == m0 + p * (m1 + p * (m2 + p * m3)));
    assert(kk * (m0 + p * (m1 + p * (m2 + p * m3))) == kk * m0 + p * (kk * m1 + p * (kk * m2 + p * (kk * m3)))) by (nonlinear_arith)
        requires p == 0x1_0000_0000_0000_0000int;
}

/// Four rounds compose: R * E = T + K*q with K = k0 + P k1 + P^2 k2 + P^3 k3.
proof fn lemma_mont_compose(a0: int, a1: int, a2: int, a3: int, a4: int, a5: int, a6: int, a7: int,
    b1: int, b2: int, b3: int, b4: int, cb: int,
    c2: int, c3: int, c4: int, c5: int, cc: int,
    d3: int, d4: int, d5: int, d6: int, cd: int,
    e4: int, e5: int, e6: int, e7: int, ce: int,
    k0: int, k1: int, k2: int, k3: int)
    requires
        0x1_0000_0000_0000_0000int * (b1 + 0x1_0000_0000_0000_0000int * (b2 + 0x1_0000_0000_0000_0000int * (b3 + 0x1_0000_0000_0000_0000int * (b4 + 0x1_0000_0000_0000_0000int * cb))))
            == a0 + 0x1_0000_0000_0000_0000int * (a1 + 0x1_0000_0000_0000_0000int * (a2 + 0x1_0000_0000_0000_0000int * (a3 + 0x1_0000_0000_0000_0000int * (a4 + 0)))) + kq(k0),
        0x1_0000_0000_0000_0000int * (c2 + 0x1_0000_0000_0000_0000int * (c3 + 0x1_0000_0000_0000_0000int * (c4 + 0x1_0000_0000_0000_0000int * (c5 + 0x1_0000_0000_0000_0000int * cc))))
            == b1 + 0x1_0000_0000_0000_0000int * (b2 + 0x1_0000_0000_0000_0000int * (b3 + 0x1_0000_0000_0000_0000int * (b4 + 0x1_0000_0000_0000_0000int * (a5 + cb)))) + kq(k1),
        0x1_0000_0000_0000_0000int * (d3 + 0x1_0000_0000_0000_0000int * (d4 + 0x1_0000_0000_0000_0000int * (d5 + 0x1_0000_0000_0000_0000int * (d6 + 0x1_0000_0000_0000_0000int * cd))))
            == c2 + 0x1_0000_0000_0000_0000int * (c3 + 0x1_0000_0000_0000_0000int * (c4 + 0x1_0000_0000_0000_0000int * (c5 + 0x1_0000_0000_0000_0000int * (a6 + cc)))) + kq(k2),
        0x1_0000_0000_0000_0000int * (e4 + 0x1_0000_0000_0000_0000int * (e5 + 0x1_0000_0000_0000_0000int * (e6 + 0x1_0000_0000_0000_0000int * (e7 + 0x1_0000_0000_0000_0000int * ce))))
            == d3 + 0x1_0000_0000_0000_0000int * (d4 + 0x1_0000_0000_0000_0000int * (d5 + 0x1_0000_0000_0000_0000int * (d6 + 0x1_0000_0000_0000_0000int * (a7 + cd)))) + kq(k3),
    ensures
        r256() * (ival4(e4, e5, e6, e7) + r256() * ce)
            == ival8(a0, a1, a2, a3, a4, a5, a6, a7) + ival4(k0, k1, k2, k3) * q(),
{
    reveal(kq);
    let p = 0x1_0000_0000_0000_0000int;
    let qq = q();
    let (t0, t1, t2, t3) = (k0 * qq, k1 * qq, k2 * qq, k3 * qq);
    assert(ival4(k0, k1, k2, k3) * qq == t0 + p * (t1 + p * (t2 + p * t3))) by (nonlinear_arith)
        requires p == 0x1_0000_0000_0000_0000int, t0 == k0 * qq, t1 == k1 * qq, t2 == k2 * qq, t3 == k3 * qq,
            ival4(k0, k1, k2, k3) == k0 + p * (k1 + p * (k2 + p * k3));
    let u0 = ival8(a0, a1, a2, a3, a4, a5, a6, a7);
    let u1 = b1 + p * (b2 + p * (b3 + p * (b4 + p * (a5 + cb + p * (a6 + p * a7)))));
    let u2 = c2 + p * (c3 + p * (c4 + p * (c5 + p * (a6 + cc + p * a7))));
    let u3 = d3 + p * (d4 + p * (d5 + p * (d6 + p * (a7 + cd))));
    let u4 = e4 + p * (e5 + p * (e6 + p * (e7 + p * ce)));
    assert(p * u1 == u0 + t0);
    assert(p * u2 == u1 + t1);
    assert(p * u3 == u2 + t2);
    assert(p * u4 == u3 + t3);
    assert(p * (p * u4) == u2 + t2 + p * t3);
    assert(p * (p * (p * u4)) == u1 + t1 + p * (t2 + p * t3));
    assert(p * (p * (p * (p * u4))) == u0 + t0 + p * (t1 + p * (t2 + p * t3)));
    assert(r256() * u4 == p * (p * (p * (p * u4)))) by (nonlinear_arith)
        requires r256() == p * p * p * p;
    assert(p * (p * (p * (p * ce))) == r256() * ce) by (nonlinear_arith)
        requires r256() == p * p * p * p;
    assert(u4 == ival4(e4, e5, e6, e7) + r256() * ce);
}

/// Final step: E = (e4..e7) + R*ce satisfies R*E = T + K*q with T < qR, K < R.  Then ce = 0, E < 2q,
/// and both possible outcomes of the conditional subtraction are congruent to T*R^-1.
proof fn lemma_mont_final(t: int, kk: int, ce: int, e4: int, e5: int, e6: int, e7: int)
    requires
        0 <= t < q() * r256(),
        0 <= kk < r256(),
        0 <= e4, 0 <= e5, 0 <= e6, 0 <= e7, 0 <= ce,
        r256() * (ival4(e4, e5, e6, e7) + r256() * ce) == t + kk * q(),
    ensures
        ce == 0,
        ival4(e4, e5, e6, e7) < 2 * q(),
        congruent(ival4(e4, e5, e6, e7) * r256(), t, q()),
        congruent((ival4(e4, e5, e6, e7) - q()) * r256(), t, q()),
{
    lemma_q_bounds();
    let e = ival4(e4, e5, e6, e7) + r256() * ce;
    assert(kk * q() < r256() * q()) by (nonlinear_arith) requires 0 <= kk < r256(), 0 < q();
    assert(q() * r256() == r256() * q()) by (nonlinear_arith);
    assert(r256() * e < r256() * (2 * q())) by (nonlinear_arith)
        requires r256() * e == t + kk * q(), t < r256() * q(), kk * q() < r256() * q();
    assert(e < 2 * q()) by (nonlinear_arith) requires r256() * e < r256() * (2 * q()), r256() > 0;
    assert(ival4(e4, e5, e6, e7) >= 0) by (nonlinear_arith) requires 0 <= e4, 0 <= e5, 0 <= e6, 0 <= e7,
        ival4(e4, e5, e6, e7) == e4 + 0x1_0000_0000_0000_0000int * (e5 + 0x1_0000_0000_0000_0000int * (e6 + 0x1_0000_0000_0000_0000int * e7));
    if ce >= 1 {
        assert(r256() * ce >= r256()) by (nonlinear_arith) requires ce >= 1, r256() > 0;
    }
    assert(ce == 0);
    let v = ival4(e4, e5, e6, e7);
    assert(v * r256() == t + kk * q()) by (nonlinear_arith) requires r256() * (v + r256() * ce) == t + kk * q(), ce == 0;
    lemma_congruent_from_multiple(v * r256(), t, kk, q());
    assert((v - q()) * r256() == t + (kk - r256()) * q()) by (nonlinear_arith) requires v * r256() == t + kk * q();
    lemma_congruent_from_multiple((v - q()) * r256(), t, kk - r256(), q());
}

proof fn lemma_congruent_from_multiple(a: int, b: int, k: int, m: int)
    requires a == b + k * m, m > 0,
    ensures congruent(a, b, m),
{
    vstd::arithmetic::div_mod::lemma_mod_multiples_basic(k, m);
}

/// One row of the schoolbook product: (x + a * B) in limbs.
proof fn lemma_mul_row(x0: int, x1: int, x2: int, x3: int, a: u64, b0: u64, b1: u64, b2: u64, b3: u64,
    c1: int, c2: int, c3: int, y0: int, y1: int, y2: int, y3: int, y4: int)
    requires
        y0 + 0x1_0000_0000_0000_0000int * c1 == x0 + mulu(a, b0),
        y1 + 0x1_0000_0000_0000_0000int * c2 == x1 + mulu(a, b1) + c1,
        y2 + 0x1_0000_0000_0000_0000int * c3 == x2 + mulu(a, b2) + c2,
        y3 + 0x1_0000_0000_0000_0000int * y4 == x3 + mulu(a, b3) + c3,
    ensures
        y0 + 0x1_0000_0000_0000_0000int * (y1 + 0x1_0000_0000_0000_0000int * (y2 + 0x1_0000_0000_0000_0000int * (y3 + 0x1_0000_0000_0000_0000int * y4)))
            == ival4(x0, x1, x2, x3) + muli(a as int, ival4(b0 as int, b1 as int, b2 as int, b3 as int)),
{
    reveal(mulu);
    reveal(muli);
    let p = 0x1_0000_0000_0000_0000int;
    let aa = a as int;
    let (b0, b1, b2, b3) = (b0 as int, b1 as int, b2 as int, b3 as int);
    assert(aa * (b0 + p * (b1 + p * (b2 + p * b3))) == aa * b0 + p * (aa * b1 + p * (aa * b2 + p * (aa * b3)))) by (nonlinear_arith)
        requires p == 0x1_0000_0000_0000_0000int;
}

/// Four rows compose to the full 512-bit product.
proof fn lemma_mul_compose(a0: int, a1: int, a2: int, a3: int, bb: int,
    z0: int, s1: int, s2: int, s3: int, s4: int,
    z1: int, t2: int, t3: int, t4: int, t5: int,
    z2: int, u3: int, u4: int, u5: int, u6: int,
    z3: int, z4: int, z5: int, z6: int, z7: int)
    requires
        z0 + 0x1_0000_0000_0000_0000int * (s1 + 0x1_0000_0000_0000_0000int * (s2 + 0x1_0000_0000_0000_0000int * (s3 + 0x1_0000_0000_0000_0000int * s4)))
            == ival4(0, 0, 0, 0) + muli(a0, bb),
        z1 + 0x1_0000_0000_0000_0000int * (t2 + 0x1_0000_0000_0000_0000int * (t3 + 0x1_0000_0000_0000_0000int * (t4 + 0x1_0000_0000_0000_0000int * t5)))
            == ival4(s1, s2, s3, s4) + muli(a1, bb),
        z2 + 0x1_0000_0000_0000_0000int * (u3 + 0x1_0000_0000_0000_0000int * (u4 + 0x1_0000_0000_0000_0000int * (u5 + 0x1_0000_0000_0000_0000int * u6)))
            == ival4(t2, t3, t4, t5) + muli(a2, bb),
        z3 + 0x1_0000_0000_0000_0000int * (z4 + 0x1_0000_0000_0000_0000int * (z5 + 0x1_0000_0000_0000_0000int * (z6 + 0x1_0000_0000_0000_0000int * z7)))
            == ival4(u3, u4, u5, u6) + muli(a3, bb),
    ensures
        ival8(z0, z1, z2, z3, z4, z5, z6, z7) == ival4(a0, a1, a2, a3) * bb,
{
    reveal(muli);
    let p = 0x1_0000_0000_0000_0000int;
    let (m0, m1, m2, m3) = (a0 * bb, a1 * bb, a2 * bb, a3 * bb);
    assert(ival4(a0, a1, a2, a3) * bb == m0 + p * (m1 + p * (m2 + p * m3))) by (nonlinear_arith)
        requires p == 0x1_0000_0000_0000_0000int, m0 == a0 * bb, m1 == a1 * bb, m2 == a2 * bb, m3 == a3 * bb,
            ival4(a0, a1, a2, a3) == a0 + p * (a1 + p * (a2 + p * a3));
    let w3 = z3 + p * (z4 + p * (z5 + p * (z6 + p * z7)));
    let w2 = z2 + p * w3;
    let w1 = z1 + p * w2;
    let w0 = z0 + p * w1;
    assert(w3 == ival4(u3, u4, u5, u6) + m3);
    assert(w2 == ival4(t2, t3, t4, t5) + m2 + p * m3);
    assert(w1 == ival4(s1, s2, s3, s4) + m1 + p * (m2 + p * m3));
    assert(w0 == m0 + p * (m1 + p * (m2 + p * m3)));
    assert(w0 == ival8(z0, z1, z2, z3, z4, z5, z6, z7));
}

proof fn lemma_prod_bound(a: int, b: int)
    requires 0 <= a < r256(), 0 <= b < r256(), a < q() || b < q(),
    ensures 0 <= a * b < q() * r256(),
{
    lemma_q_bounds();
    if a < q() {
        assert(a * b < q() * r256()) by (nonlinear_arith) requires 0 <= a < q(), 0 <= b < r256();
    } else {
        assert(a * b < q() * r256()) by (nonlinear_arith) requires 0 <= b < q(), 0 <= a < r256();
    }
    assert(0 <= a * b) by (nonlinear_arith) requires 0 <= a, 0 <= b;
}

/// The Montgomery constants that ship satisfy their defining equations.
proof fn lemma_consts()
    ensures
        reduced(R), reduced(R2), reduced(R3),
        val4(R.0) == r256() % q(),
        val4(R2.0) == (r256() * r256()) % q(),
        val4(R3.0) == (r256() * r256() * r256()) % q(),
{
    // evaluated by Verus' interpreter on the constants extracted from the source
    assert(val4(R.0) < q()) by (compute_only);
    assert(val4(R2.0) < q()) by (compute_only);
    assert(val4(R3.0) < q()) by (compute_only);
    assert(val4(R.0) == r256() % q()) by (compute_only);
    assert(val4(R2.0) == (r256() * r256()) % q()) by (compute_only);
    assert(val4(R3.0) == (r256() * r256() * r256()) % q()) by (compute_only);
}

// ---------------- published constants (Montgomery form) ----------------

spec fn modpow(b: int, e: nat, m: int) -> int
    decreases e
{
    if e == 0 { 1int % m } else if e % 2 == 0 { let h = modpow(b, e / 2, m); (h * h) % m } else { (b * modpow(b, (e - 1) as nat, m)) % m }
}

spec fn p2(n: nat) -> int
    decreases n
{
    if n == 0 { 1int } else { 2 * p2((n - 1) as nat) }
}

/// R^-1 mod q (by Fermat; its defining equation is checked below, so primality is not assumed)
spec fn rinv() -> int { modpow(r256() % q(), (q() - 2) as nat, q()) }

/// the field element denoted by a Montgomery representative
spec fn iota(x: Fr) -> int { (val4(x.0) * rinv()) % q() }

proof fn lemma_constants_defining_equations()
    ensures
        (rinv() * r256()) % q() == 1,
        p2((MODULUS_BITS - 1) as nat) <= q() < p2(MODULUS_BITS as nat),
        reduced(TWO_INV), (2 * iota(TWO_INV)) % q() == 1,
        reduced(GENERATOR), iota(GENERATOR) == 6,
        modpow(6, ((q() - 1) / 2) as nat, q()) == q() - 1,               // quadratic non-residue
        (q() - 1) % p2(S as nat) == 0, ((q() - 1) / p2(S as nat)) % 2 == 1,   // 2^S * t = q - 1, t odd
        reduced(ROOT_OF_UNITY),
        iota(ROOT_OF_UNITY) == modpow(iota(GENERATOR), ((q() - 1) / p2(S as nat)) as nat, q()),
        modpow(iota(ROOT_OF_UNITY), p2(S as nat) as nat, q()) == 1,
        modpow(iota(ROOT_OF_UNITY), p2((S - 1) as nat) as nat, q()) != 1,    // order exactly 2^S
        reduced(ROOT_OF_UNITY_INV), (iota(ROOT_OF_UNITY_INV) * iota(ROOT_OF_UNITY)) % q() == 1,
        reduced(DELTA), iota(DELTA) == modpow(iota(GENERATOR), p2(S as nat) as nat, q()),
{
    assert((rinv() * r256()) % q() == 1) by (compute_only);
    assert(p2((MODULUS_BITS - 1) as nat) <= q() < p2(MODULUS_BITS as nat)) by (compute_only);
    assert(val4(TWO_INV.0) < q() && (2 * iota(TWO_INV)) % q() == 1) by (compute_only);
    assert(val4(GENERATOR.0) < q() && iota(GENERATOR) == 6) by (compute_only);
    assert(modpow(6, ((q() - 1) / 2) as nat, q()) == q() - 1) by (compute_only);
    assert((q() - 1) % p2(S as nat) == 0 && ((q() - 1) / p2(S as nat)) % 2 == 1) by (compute_only);
    assert(val4(ROOT_OF_UNITY.0) < q()) by (compute_only);
    assert(iota(ROOT_OF_UNITY) == modpow(iota(GENERATOR), ((q() - 1) / p2(S as nat)) as nat, q())) by (compute_only);
    assert(modpow(iota(ROOT_OF_UNITY), p2(S as nat) as nat, q()) == 1) by (compute_only);
    assert(modpow(iota(ROOT_OF_UNITY), p2((S - 1) as nat) as nat, q()) != 1) by (compute_only);
    assert(val4(ROOT_OF_UNITY_INV.0) < q() && (iota(ROOT_OF_UNITY_INV) * iota(ROOT_OF_UNITY)) % q() == 1) by (compute_only);
    assert(val4(DELTA.0) < q() && iota(DELTA) == modpow(iota(GENERATOR), p2(S as nat) as nat, q())) by (compute_only);
}

// ---------------- Fr::square: cross products, doubling by shifts, diagonal ----------------

proof fn lemma_shl1(x: u64)
    ensures (x << 1) as int + 0x1_0000_0000_0000_0000int * ((x >> 63) as int) == 2 * (x as int),
{
    assert((x << 1) as int + 0x1_0000_0000_0000_0000int * ((x >> 63) as int) == 2 * (x as int)) by (bit_vector);
}

proof fn lemma_shl1_or(x: u64, y: u64)
    ensures ((x << 1) | (y >> 63)) as int == (x << 1) as int + (y >> 63) as int,
{
    assert(((x << 1) | (y >> 63)) as int == (x << 1) as int + (y >> 63) as int) by (bit_vector);
}

/// the six cross-product macs: X = s1 + P s2 + P^2 t3 + P^3 t4 + P^4 t5 + P^5 s6
proof fn lemma_sq_cross(a0: u64, a1: u64, a2: u64, a3: u64,
    s1: int, c0: int, s2: int, c1: int, s3: int, s4: int, t3: int, c3: int, t4: int, s5: int, t5: int, s6: int)
    requires
        s1 + 0x1_0000_0000_0000_0000int * c0 == mulu(a0, a1),
        s2 + 0x1_0000_0000_0000_0000int * c1 == mulu(a0, a2) + c0,
        s3 + 0x1_0000_0000_0000_0000int * s4 == mulu(a0, a3) + c1,
        t3 + 0x1_0000_0000_0000_0000int * c3 == s3 + mulu(a1, a2),
        t4 + 0x1_0000_0000_0000_0000int * s5 == s4 + mulu(a1, a3) + c3,
        t5 + 0x1_0000_0000_0000_0000int * s6 == s5 + mulu(a2, a3),
    ensures
        s1 + 0x1_0000_0000_0000_0000int * (s2 + 0x1_0000_0000_0000_0000int * (t3 + 0x1_0000_0000_0000_0000int * (t4 + 0x1_0000_0000_0000_0000int * (t5 + 0x1_0000_0000_0000_0000int * s6))))
          == mulu(a0, a1) + 0x1_0000_0000_0000_0000int * (mulu(a0, a2) + 0x1_0000_0000_0000_0000int * (mulu(a0, a3) + mulu(a1, a2)
             + 0x1_0000_0000_0000_0000int * (mulu(a1, a3) + 0x1_0000_0000_0000_0000int * mulu(a2, a3)))),
{
}

/// the shift/or block doubles the 6-limb cross value into 7 limbs
proof fn lemma_sq_double(s1: u64, s2: u64, t3: u64, t4: u64, t5: u64, s6: u64,
    n1: u64, n2: u64, n3: u64, n4: u64, n5: u64, n6: u64, n7: u64)
    requires
        n7 == s6 >> 63, n6 == (s6 << 1) | (t5 >> 63), n5 == (t5 << 1) | (t4 >> 63), n4 == (t4 << 1) | (t3 >> 63),
        n3 == (t3 << 1) | (s2 >> 63), n2 == (s2 << 1) | (s1 >> 63), n1 == s1 << 1,
    ensures
        n1 as int + 0x1_0000_0000_0000_0000int * (n2 as int + 0x1_0000_0000_0000_0000int * (n3 as int + 0x1_0000_0000_0000_0000int * (n4 as int
          + 0x1_0000_0000_0000_0000int * (n5 as int + 0x1_0000_0000_0000_0000int * (n6 as int + 0x1_0000_0000_0000_0000int * (n7 as int))))))
        == 2 * (s1 as int + 0x1_0000_0000_0000_0000int * (s2 as int + 0x1_0000_0000_0000_0000int * (t3 as int + 0x1_0000_0000_0000_0000int * (t4 as int
          + 0x1_0000_0000_0000_0000int * (t5 as int + 0x1_0000_0000_0000_0000int * (s6 as int)))))),
{
    lemma_shl1(s1); lemma_shl1(s2); lemma_shl1(t3); lemma_shl1(t4); lemma_shl1(t5); lemma_shl1(s6);
    lemma_shl1_or(s6, t5); lemma_shl1_or(t5, t4); lemma_shl1_or(t4, t3); lemma_shl1_or(t3, s2); lemma_shl1_or(s2, s1);
}

/// the diagonal pass: add a_i^2 at even limb positions
proof fn lemma_sq_diag(a0: u64, a1: u64, a2: u64, a3: u64,
    n1: int, n2: int, n3: int, n4: int, n5: int, n6: int, n7: int,
    z0: int, d0: int, z1: int, d1: int, z2: int, d2: int, z3: int, d3: int, z4: int, d4: int, z5: int, d5: int, z6: int, d6: int, z7: int, d7: int)
    requires
        z0 + 0x1_0000_0000_0000_0000int * d0 == mulu(a0, a0),
        z1 + 0x1_0000_0000_0000_0000int * d1 == n1 + d0,
        z2 + 0x1_0000_0000_0000_0000int * d2 == n2 + mulu(a1, a1) + d1,
        z3 + 0x1_0000_0000_0000_0000int * d3 == n3 + d2,
        z4 + 0x1_0000_0000_0000_0000int * d4 == n4 + mulu(a2, a2) + d3,
        z5 + 0x1_0000_0000_0000_0000int * d5 == n5 + d4,
        z6 + 0x1_0000_0000_0000_0000int * d6 == n6 + mulu(a3, a3) + d5,
        z7 + 0x1_0000_0000_0000_0000int * d7 == n7 + d6,
    ensures
        ival8(z0, z1, z2, z3, z4, z5, z6, z7) + r256() * r256() * d7
          == mulu(a0, a0) + 0x1_0000_0000_0000_0000int * (n1 + 0x1_0000_0000_0000_0000int * (n2 + mulu(a1, a1) + 0x1_0000_0000_0000_0000int * (n3
             + 0x1_0000_0000_0000_0000int * (n4 + mulu(a2, a2) + 0x1_0000_0000_0000_0000int * (n5 + 0x1_0000_0000_0000_0000int * (n6 + mulu(a3, a3) + 0x1_0000_0000_0000_0000int * n7)))))),
{
    let p = 0x1_0000_0000_0000_0000int;
    assert(r256() * r256() * d7 == p * (p * (p * (p * (p * (p * (p * (p * d7)))))))) by (nonlinear_arith)
        requires r256() == p * p * p * p;
}

/// (a0 + P a1 + P^2 a2 + P^3 a3)^2 expanded into the ten limb products
proof fn lemma_sq_expand(a0: u64, a1: u64, a2: u64, a3: u64)
    ensures
        val4([a0, a1, a2, a3]) * val4([a0, a1, a2, a3])
          == mulu(a0, a0) + 0x1_0000_0000_0000_0000int * (2 * mulu(a0, a1) + 0x1_0000_0000_0000_0000int * (2 * mulu(a0, a2) + mulu(a1, a1)
             + 0x1_0000_0000_0000_0000int * (2 * (mulu(a0, a3) + mulu(a1, a2)) + 0x1_0000_0000_0000_0000int * (2 * mulu(a1, a3) + mulu(a2, a2)
             + 0x1_0000_0000_0000_0000int * (2 * mulu(a2, a3) + 0x1_0000_0000_0000_0000int * mulu(a3, a3)))))),
{
    reveal(mulu);
    let p = 0x1_0000_0000_0000_0000int;
    let (x0, x1, x2, x3) = (a0 as int, a1 as int, a2 as int, a3 as int);
    assert(val4([a0, a1, a2, a3]) == x0 + p * (x1 + p * (x2 + p * x3)));
    assert((x0 + p * (x1 + p * (x2 + p * x3))) * (x0 + p * (x1 + p * (x2 + p * x3)))
        == x0 * x0 + p * (2 * (x0 * x1) + p * (2 * (x0 * x2) + x1 * x1 + p * (2 * (x0 * x3 + x1 * x2) + p * (2 * (x1 * x3) + x2 * x2
           + p * (2 * (x2 * x3) + p * (x3 * x3))))))) by (nonlinear_arith)
        requires p == 0x1_0000_0000_0000_0000int;
}

proof fn lemma_sq_no_carry(t: int, v: int, d7: int)
    requires t + r256() * r256() * d7 == v, 0 <= t, 0 <= d7, 0 <= v < r256() * r256(),
    ensures d7 == 0,
{
    if d7 >= 1 {
        assert(r256() * r256() * d7 >= r256() * r256()) by (nonlinear_arith) requires d7 >= 1, r256() * r256() > 0;
    }
}
