#!/usr/bin/env python3
"""Writes contracts.txt (committed).  The montgomery_reduce / mul_ref ghost hints are regular, so they
are generated here instead of typed by hand; contracts.txt is what the checker reads."""
P = "0x1_0000_0000_0000_0000int"
A = "curves/src/arithmetic.rs"
F = "curves/src/jubjub/fr.rs"
out = []


def item(path, ret=None, stmts=None, requires=(), ensures=(), hints=None, attrs=()):
    out.append("### " + path)
    if ret:
        out.append("ret: " + ret)
    if stmts is not None:
        out.append("stmts: %d" % stmts)
    for a in attrs:
        out.append("attr: " + a)
    if requires:
        out.append("requires:")
        out.extend("        " + r + "," for r in requires)
    if ensures:
        out.append("ensures:")
        out.extend("        " + r + "," for r in ensures)
    for k in sorted(hints or {}, key=int):
        out.append("hint@%s:" % k)
        out.extend("        " + l for l in hints[k])
    out.append("")


item(A + " :: fn adc", ret="r", stmts=2,
     ensures=["r.0 as int + %s * (r.1 as int) == a as int + b as int + carry as int" % P],
     hints={"1": ["proof { assert(ret as u64 as int + %s * ((ret >> 64) as u64 as int) == ret as int) by (bit_vector); }" % P]})

item(A + " :: fn sbb", ret="r", stmts=2,
     requires=["borrow == 0 || borrow == 0xffff_ffff_ffff_ffffu64"],
     ensures=["r.1 == 0 || r.1 == 0xffff_ffff_ffff_ffffu64",
              "r.0 as int - (if r.1 == 0 { 0int } else { %s }) == a as int - b as int - (if borrow == 0 { 0int } else { 1int })" % P],
     hints={"1": ["proof {",
                  "    assert(borrow == 0 ==> (borrow >> 63) == 0) by (bit_vector);",
                  "    assert(borrow == 0xffff_ffff_ffff_ffffu64 ==> (borrow >> 63) == 1) by (bit_vector);",
                  "    assert(ret as u64 as int + %s * ((ret >> 64) as u64 as int) == ret as int) by (bit_vector);" % P,
                  "}"]})

item(A + " :: fn mac", ret="r", stmts=2,
     ensures=["r.0 as int + %s * (r.1 as int) == a as int + mulu(b, c) + carry as int" % P],
     hints={"0": ["proof {",
                  "    reveal(mulu);",
                  "    assert((b as int) * (c as int) <= 0xffff_ffff_ffff_ffffint * 0xffff_ffff_ffff_ffffint) by (nonlinear_arith)",
                  "        requires 0 <= b as int <= 0xffff_ffff_ffff_ffffint, 0 <= c as int <= 0xffff_ffff_ffff_ffffint;",
                  "}"],
            "1": ["proof { assert(ret as u64 as int + %s * ((ret >> 64) as u64 as int) == ret as int) by (bit_vector); }" % P]})

SUBPOST = "val4(r.0) == (if val4(self.0) >= val4(rhs.0) { val4(self.0) - val4(rhs.0) } else { val4(self.0) + q() - val4(rhs.0) })"
item(F + " :: impl Fr :: fn sub_ref", ret="r", stmts=9,
     requires=["val4(rhs.0) <= val4(self.0) + q()"], ensures=[SUBPOST])
item(F + " :: impl Fr :: fn sub", ret="r", stmts=1,
     requires=["val4(rhs.0) <= val4(self.0) + q()"], ensures=[SUBPOST])
item(F + " :: impl Fr :: fn add", ret="r", stmts=5,
     requires=["reduced(*self)", "reduced(*rhs)"],
     ensures=["reduced(r)", "val4(r.0) == (val4(self.0) + val4(rhs.0)) % q()"],
     hints={"0": ["proof { lemma_q_bounds(); lemma_val4_bound(self.0); lemma_val4_bound(rhs.0); }"],
            "4": ["proof {",
                  "    let s = val4(self.0) + val4(rhs.0);",
                  "    assert(val4([d0, d1, d2, d3]) == s);",
                  "    if s >= q() { vstd::arithmetic::div_mod::lemma_fundamental_div_mod_converse(s, q(), 1, s - q()); }",
                  "    else { vstd::arithmetic::div_mod::lemma_small_mod(s as nat, q() as nat); }",
                  "}"]})
item(F + " :: impl Fr :: fn double", ret="r", stmts=1,
     requires=["reduced(*self)"], ensures=["reduced(r)", "val4(r.0) == (2 * val4(self.0)) % q()"])
item(F + " :: impl Fr :: fn neg", ret="r", stmts=6,
     requires=["reduced(*self)"],
     ensures=["reduced(r)", "val4(r.0) == (q() - val4(self.0)) % q()"],
     hints={"0": ["proof { lemma_q_bounds(); lemma_val4_bound(self.0); }"],
            "5": ["proof {",
                  "    let (s0, s1, s2, s3) = (self.0[0], self.0[1], self.0[2], self.0[3]);",
                  "    assert(((s0 | s1 | s2 | s3) == 0) <==> (s0 == 0 && s1 == 0 && s2 == 0 && s3 == 0)) by (bit_vector);",
                  "    assert(mask == 0 || mask == 0xffff_ffff_ffff_ffffu64);",
                  "    if val4(self.0) == 0 { vstd::arithmetic::div_mod::lemma_mod_self_0(q()); }",
                  "    else { vstd::arithmetic::div_mod::lemma_small_mod((q() - val4(self.0)) as nat, q() as nat); }",
                  "}"]})
item(F + " :: impl Fr :: fn zero", ret="r", stmts=1, ensures=["val4(r.0) == 0", "reduced(r)"],
     hints={"0": ["proof { lemma_q_bounds(); }"]})

# ---- montgomery_reduce: 25 statements, four regular rounds
M = ["MODULUS.0[%d] as int" % i for i in range(4)]
h = {}
h["0"] = ["let ghost (a0, a1, a2, a3, a4, a5, a6, a7) = (r0 as int, r1 as int, r2 as int, r3 as int, r4 as int, r5 as int, r6 as int, r7 as int);",
          "proof { lemma_q_bounds(); }"]
prev = ["a0", "a1", "a2", "a3", "a4", "a5", "a6", "a7"]
names = ["b", "c", "d", "e"]
cur = list(prev)
cin = "0"
for j in range(4):
    s = 6 * j
    n = names[j]
    x = [cur[j + i] for i in range(5)]
    y = ["%s%d" % (n, j + i) for i in range(1, 5)]
    rv = ["r%d" % (j + i) for i in range(1, 5)]
    rv0 = ["r0", "r1", "r2", "r3"]
    h[str(s + 2)] = ["let ghost k%d = k as int; let ghost ku%d = k; let ghost %sc1 = carry as int;" % (j, j, n),
                     "proof { lemma_low_zero(%s, k, %sc1); }" % (rv0[j], n)]
    h[str(s + 3)] = ["let ghost %s = %s as int; let ghost %sc2 = carry as int;" % (y[0], rv[0], n)]
    h[str(s + 4)] = ["let ghost %s = %s as int; let ghost %sc3 = carry as int;" % (y[1], rv[1], n)]
    h[str(s + 5)] = ["let ghost %s = %s as int; let ghost %sc4 = carry as int;" % (y[2], rv[2], n)]
    last = str(s + 6)
    if j < 3:
        tail = ["let ghost %s = %s as int; let ghost %scout = carry2 as int;" % (y[3], rv[3], n)]
        cout = "%scout" % n
    else:
        # the last adc discards its carry: name it through the adc postcondition
        tail = ["let ghost %s = %s as int;" % (y[3], rv[3]),
                "let ghost %scout = (%s + %s + %sc4 - %s) / %s;" % (n, x[4], cin, n, y[3], P),
                "proof { assert(%s + %s * %scout == %s + %s + %sc4); }" % (y[3], P, n, x[4], cin, n)]
        cout = "%scout" % n
    tail.append("proof { lemma_mont_round(%s, %s, ku%d, %sc1, %sc2, %sc3, %sc4, %s, %s); }"
                % (", ".join(x), cin, j, n, n, n, n, ", ".join(y), cout))
    h[last] = h.get(last, []) + tail
    for i in range(4):
        cur[j + 1 + i] = y[i]
    cin = cout
# final: statement 24 is the tail expression
h["24"] = h["24"] + [
    "proof {",
    "    lemma_mont_compose(a0, a1, a2, a3, a4, a5, a6, a7, b1, b2, b3, b4, bcout, c2, c3, c4, c5, ccout, d3, d4, d5, d6, dcout, e4, e5, e6, e7, ecout, k0, k1, k2, k3);",
    "    let kk = ival4(k0, k1, k2, k3);",
    "    let t = ival8(a0, a1, a2, a3, a4, a5, a6, a7);",
    "    assert(0 <= kk < r256()) by {",
    "        assert(kk <= ival4(0xffff_ffff_ffff_ffff, 0xffff_ffff_ffff_ffff, 0xffff_ffff_ffff_ffff, 0xffff_ffff_ffff_ffff));",
    "        assert(ival4(0xffff_ffff_ffff_ffff, 0xffff_ffff_ffff_ffff, 0xffff_ffff_ffff_ffff, 0xffff_ffff_ffff_ffff) < r256()) by (compute_only);",
    "    }",
    "    assert(ecout >= 0);",
    "    lemma_mont_final(t, kk, ecout, e4, e5, e6, e7);",
    "    assert(val4([r4, r5, r6, r7]) == ival4(e4, e5, e6, e7));",
    "}"]
item(F + " :: impl Fr :: fn montgomery_reduce", ret="r", stmts=25, attrs=["#[verifier::rlimit(400)]"],
     requires=["val8(r0, r1, r2, r3, r4, r5, r6, r7) < q() * r256()"],
     ensures=["reduced(r)", "congruent(val4(r.0) * r256(), val8(r0, r1, r2, r3, r4, r5, r6, r7), q())"],
     hints=h)

# ---- mul_ref: 16 macs (4 rows) + tail call
h = {}
h["0"] = ["proof { lemma_q_bounds(); lemma_val4_bound(self.0); lemma_val4_bound(rhs.0); }"]
# output variable names per statement, from the source: row i, column j
rows_out = [["r0", "r1", "r2", "r3", "r4"], ["r1", "r2", "r3", "r4", "r5"], ["r2", "r3", "r4", "r5", "r6"], ["r3", "r4", "r5", "r6", "r7"]]
for i in range(4):
    for j in range(4):
        st = 4 * i + j
        outv = rows_out[i][j]
        g_ = "let ghost w%d%d = %s as int;" % (i, j, outv)
        if j < 3:
            g_ += " let ghost cy%d%d = carry as int;" % (i, j)
        else:
            g_ += " let ghost w%d4 = %s as int;" % (i, rows_out[i][4])
        h.setdefault(str(st + 1), []).append(g_)
    xin = ["0", "0", "0", "0"] if i == 0 else ["w%d%d" % (i - 1, jj) for jj in range(1, 5)]
    h[str(4 * i + 4)].append("proof { lemma_mul_row(%s, self.0[%d], rhs.0[0], rhs.0[1], rhs.0[2], rhs.0[3], cy%d0, cy%d1, cy%d2, w%d0, w%d1, w%d2, w%d3, w%d4); }"
                             % (", ".join(xin), i, i, i, i, i, i, i, i, i))
h["16"] += [
    "proof {",
    "    let bb = ival4(rhs.0[0] as int, rhs.0[1] as int, rhs.0[2] as int, rhs.0[3] as int);",
    "    lemma_mul_compose(self.0[0] as int, self.0[1] as int, self.0[2] as int, self.0[3] as int, bb,",
    "        w00, w01, w02, w03, w04, w10, w11, w12, w13, w14, w20, w21, w22, w23, w24, w30, w31, w32, w33, w34);",
    "    assert(val8(r0, r1, r2, r3, r4, r5, r6, r7) == val4(self.0) * val4(rhs.0));",
    "    lemma_prod_bound(val4(self.0), val4(rhs.0));",
    "}"]
MULPRE = ["reduced(*self) || reduced(*rhs)"]
MULPOST = ["reduced(r)", "congruent(val4(r.0) * r256(), val4(self.0) * val4(rhs.0), q())"]
item(F + " :: impl Fr :: fn mul_ref", ret="r", stmts=17, requires=MULPRE, ensures=MULPOST, hints=h)
item(F + " :: impl Fr :: fn mul", ret="r", stmts=1, requires=["reduced(self) || reduced(*rhs)"], ensures=MULPOST)
item(F + " :: impl Fr :: fn from_raw", ret="r", stmts=1,
     ensures=["reduced(r)", "congruent(val4(r.0) * r256(), val4(val) * val4(R2.0), q())"],
     hints={"0": ["proof { lemma_consts(); }"]})
item(F + " :: impl Fr :: fn one", ret="r", stmts=1, ensures=["reduced(r)", "val4(r.0) == r256() % q()"],
     hints={"0": ["proof { lemma_consts(); }"]})

# ---- square: 6 cross macs, 7 shift lets, 8 diagonal mac/adc, tail  (22 statements)
h = {}
h["0"] = ["proof { lemma_q_bounds(); lemma_val4_bound(self.0); }"]
h["1"] = ["let ghost s1 = r1; let ghost c0 = carry as int;"]
h["2"] = ["let ghost s2 = r2; let ghost c1 = carry as int;"]
h["3"] = ["let ghost s3 = r3 as int; let ghost s4 = r4 as int;"]
h["4"] = ["let ghost t3 = r3; let ghost c3 = carry as int;"]
h["5"] = ["let ghost t4 = r4; let ghost s5 = r5 as int;"]
h["6"] = ["let ghost t5 = r5; let ghost s6 = r6;",
          "proof { lemma_sq_cross(self.0[0], self.0[1], self.0[2], self.0[3], s1 as int, c0, s2 as int, c1, s3, s4, t3 as int, c3, t4 as int, s5, t5 as int, s6 as int); }"]
h["13"] = ["let ghost (n1, n2, n3, n4, n5, n6, n7) = (r1, r2, r3, r4, r5, r6, r7);",
           "proof { lemma_sq_double(s1, s2, t3, t4, t5, s6, n1, n2, n3, n4, n5, n6, n7); }"]
names = ["z0", "z1", "z2", "z3", "z4", "z5", "z6", "z7"]
for i in range(8):
    if i < 7:
        h.setdefault(str(14 + i), []).append("let ghost %s = r%d as int; let ghost d%d = carry as int;" % (names[i], i, i))
h["21"] = ["let ghost z7 = r7 as int;",
           "let ghost d7 = (n7 as int + d6 - z7) / %s;" % P,
           "proof {",
           "    assert(z7 + %s * d7 == n7 as int + d6);" % P,
           "    lemma_sq_diag(self.0[0], self.0[1], self.0[2], self.0[3], n1 as int, n2 as int, n3 as int, n4 as int, n5 as int, n6 as int, n7 as int,",
           "        z0, d0, z1, d1, z2, d2, z3, d3, z4, d4, z5, d5, z6, d6, z7, d7);",
           "    lemma_sq_expand(self.0[0], self.0[1], self.0[2], self.0[3]);",
           "    let v = val4(self.0) * val4(self.0);",
           "    assert(self.0 =~= [self.0[0], self.0[1], self.0[2], self.0[3]]);",
           "    assert(ival8(z0, z1, z2, z3, z4, z5, z6, z7) + r256() * r256() * d7 == v);",
           "    assert(0 <= v < r256() * r256()) by (nonlinear_arith) requires v == val4(self.0) * val4(self.0), 0 <= val4(self.0) < r256();",
           "    assert(d7 >= 0);",
           "    lemma_sq_no_carry(ival8(z0, z1, z2, z3, z4, z5, z6, z7), v, d7);",
           "    assert(val8(r0, r1, r2, r3, r4, r5, r6, r7) == v);",
           "    lemma_prod_bound(val4(self.0), val4(self.0));",
           "}"]
item(F + " :: impl Fr :: fn square", ret="r", stmts=22, requires=["reduced(*self)"],
     ensures=["reduced(r)", "congruent(val4(r.0) * r256(), val4(self.0) * val4(self.0), q())"], hints=h)

open(__file__.rsplit("/", 1)[0] + "/contracts.txt", "w").write("\n".join(out) + "\n")
print("contracts.txt written:", sum(1 for l in out if l.startswith("###")), "items")
