// Kani harness injected into curves/src/bls12_381/fp.rs (BLS12-381 base field).
use super::*;

fn le64(b: &[u8], off: usize) -> u64 {
    let mut v: u64 = 0;
    let mut i = 0;
    while i < 8 {
        v |= (b[off + i] as u64) << (8 * i);
        i += 1;
    }
    v
}

fn lt6(a: [u64; 6], m: [u64; 6]) -> bool {
    let mut borrow: u128 = 0;
    let mut i = 0;
    while i < 6 {
        let d = (a[i] as u128).wrapping_sub(m[i] as u128 + borrow);
        borrow = (d >> 127) & 1;
        i += 1;
    }
    borrow == 1
}

fn limbs_of(b: &[u8; 48]) -> [u64; 6] {
    [le64(b, 0), le64(b, 8), le64(b, 16), le64(b, 24), le64(b, 32), le64(b, 40)]
}

#[kani::proof]
#[kani::unwind(50)]
fn bls_fp_is_valid_spec() {
    let b: [u8; 48] = kani::any();
    assert!(is_valid(&b) == lt6(limbs_of(&b), MODULUS));
}

#[kani::proof]
#[kani::unwind(10)]
fn bls_fp_is_valid_u64_spec() {
    let a: [u64; 6] = kani::any();
    assert!(is_valid_u64(&a) == lt6(a, MODULUS));
}

#[kani::proof]
#[kani::unwind(10)]
fn bls_fp_u64s_from_bytes_spec() {
    let b: [u8; 48] = kani::any();
    let l = u64s_from_bytes(&b);
    let e = limbs_of(&b);
    assert!(l[0] == e[0] && l[1] == e[1] && l[2] == e[2] && l[3] == e[3] && l[4] == e[4] && l[5] == e[5]);
}

#[kani::proof]
#[kani::unwind(100)]
fn bls_fp_modulus_representations() {
    let l = limbs_of(&MODULUS_REPR);
    let mut i = 0;
    while i < 6 {
        assert!(l[i] == MODULUS[i]);
        i += 1;
    }
    let s = <Fp as PrimeField>::MODULUS.as_bytes();
    assert!(s.len() == 98 && s[0] == b'0' && s[1] == b'x');
    let mut limbs = [0u64; 6];
    let mut i = 0;
    while i < 96 {
        let c = s[2 + i];
        let v = if c >= b'0' && c <= b'9' { (c - b'0') as u64 } else { (c - b'a' + 10) as u64 };
        let pos = 95 - i;
        limbs[pos / 16] |= v << (4 * (pos % 16));
        i += 1;
    }
    let mut i = 0;
    while i < 6 {
        assert!(limbs[i] == MODULUS[i]);
        i += 1;
    }
}

/// checked raw decoder: Some(x) => limbs(x) < MODULUS; canonical limb patterns accepted unchanged.
#[kani::proof]
#[kani::unwind(56)]
fn bls_fp_from_raw_bytes_checked() {
    let b: [u8; 48] = kani::any();
    let limbs = limbs_of(&b);
    match <Fp as SerdeObject>::from_raw_bytes(&b) {
        Some(x) => {
            assert!(lt6(x.0.l, MODULUS));
            let mut i = 0;
            while i < 6 {
                assert!(x.0.l[i] == limbs[i]);
                i += 1;
            }
        }
        None => assert!(!lt6(limbs, MODULUS)),
    }
    assert!(<Fp as SerdeObject>::from_raw_bytes(&b[..47]).is_none());
}
