// Kani harness injected into curves/src/bls12_381/fq.rs (BLS12-381 scalar field): the pure-Rust
// canonical-encoding predicates and the raw (Montgomery-limb) decoder.  All blst calls are outside.
use super::*;

fn le64(b: &[u8], off: usize) -> u64 {
    let mut v: u64 = 0;
    let mut i = 0;
    while i < 8 {
        v |= (b[off + i] as u64) << (8 * i);
        i += 1;
    }
    v
}

fn lt4(a: [u64; 4], m: [u64; 4]) -> bool {
    let mut borrow: u128 = 0;
    let mut i = 0;
    while i < 4 {
        let d = (a[i] as u128).wrapping_sub(m[i] as u128 + borrow);
        borrow = (d >> 127) & 1;
        i += 1;
    }
    borrow == 1
}

/// is_valid(a) <=> val(a) < MODULUS (used by from_repr_vartime)
#[kani::proof]
#[kani::unwind(10)]
fn bls_fq_is_valid_spec() {
    let a: [u64; 4] = kani::any();
    assert!(is_valid(&a) == lt4(a, MODULUS));
}

#[kani::proof]
#[kani::unwind(10)]
fn bls_fq_u64s_from_bytes_spec() {
    let b: [u8; 32] = kani::any();
    let l = u64s_from_bytes(&b);
    assert!(l[0] == le64(&b, 0) && l[1] == le64(&b, 8) && l[2] == le64(&b, 16) && l[3] == le64(&b, 24));
}

/// the three representations of the modulus agree: limbs, MODULUS_REPR bytes, MODULUS hex string
#[kani::proof]
#[kani::unwind(70)]
fn bls_fq_modulus_representations() {
    let l = u64s_from_bytes(&MODULUS_REPR);
    assert!(l[0] == MODULUS[0] && l[1] == MODULUS[1] && l[2] == MODULUS[2] && l[3] == MODULUS[3]);
    let s = <Fq as PrimeField>::MODULUS.as_bytes();
    assert!(s.len() == 66 && s[0] == b'0' && s[1] == b'x');
    let mut limbs = [0u64; 4];
    let mut i = 0;
    while i < 64 {
        let c = s[2 + i];
        let v = if c >= b'0' && c <= b'9' { (c - b'0') as u64 } else { (c - b'a' + 10) as u64 };
        let pos = 63 - i;
        limbs[pos / 16] |= v << (4 * (pos % 16));
        i += 1;
    }
    assert!(limbs[0] == MODULUS[0] && limbs[1] == MODULUS[1] && limbs[2] == MODULUS[2] && limbs[3] == MODULUS[3]);
}

/// SerdeObject::from_raw_bytes is the CHECKED raw decoder (SerdeFormat::RawBytes: "checks are
/// performed to ensure ... field elements are less than modulus"): Some(x) => limbs(x) < MODULUS, and
/// every canonical limb pattern is accepted unchanged; wrong length => None.
#[kani::proof]
#[kani::unwind(40)]
fn bls_fq_from_raw_bytes_checked() {
    let b: [u8; 32] = kani::any();
    let limbs = [le64(&b, 0), le64(&b, 8), le64(&b, 16), le64(&b, 24)];
    match <Fq as SerdeObject>::from_raw_bytes(&b) {
        Some(x) => {
            assert!(lt4(x.0.l, MODULUS));
            assert!(x.0.l[0] == limbs[0] && x.0.l[1] == limbs[1] && x.0.l[2] == limbs[2] && x.0.l[3] == limbs[3]);
        }
        None => assert!(!lt4(limbs, MODULUS)),
    }
    assert!(<Fq as SerdeObject>::from_raw_bytes(&b[..31]).is_none());
}
