// Kani harness injected into curves/src/curve25519/fp.rs (pure-Rust 4-limb Montgomery field,
// p = 2^255 - 19): canonical-encoding decoder, modulus representations, byte plumbing.
// The multiplier is stubbed on both sides where it only has to be *called* (see jubjub_fr_harness.rs).
use super::*;

fn le64(b: &[u8], off: usize) -> u64 {
    let mut v: u64 = 0;
    let mut i = 0;
    while i < 8 {
        v |= (b[off + i] as u64) << (8 * i);
        i += 1;
    }
    v
}

fn lt4(a: [u64; 4], m: [u64; 4]) -> bool {
    let mut borrow: u128 = 0;
    let mut i = 0;
    while i < 4 {
        let d = (a[i] as u128).wrapping_sub(m[i] as u128 + borrow);
        borrow = (d >> 127) & 1;
        i += 1;
    }
    borrow == 1
}

fn stub_mul(a: &Fp, b: &Fp) -> Fp {
    Fp([
        (a.0[0] ^ b.0[3].rotate_left(29)).wrapping_add(b.0[0].rotate_left(17)) ^ a.0[1].rotate_left(5),
        (a.0[1] ^ b.0[0].rotate_left(31)).wrapping_add(b.0[1].rotate_left(19)) ^ a.0[2].rotate_left(7),
        (a.0[2] ^ b.0[1].rotate_left(37)).wrapping_add(b.0[2].rotate_left(23)) ^ a.0[3].rotate_left(11),
        (a.0[3] ^ b.0[2].rotate_left(41)).wrapping_add(b.0[3].rotate_left(3)) ^ a.0[0].rotate_left(13),
    ])
}

fn stub_from_mont(a: &Fp) -> [u64; 4] {
    [
        a.0[0].rotate_left(7) ^ a.0[3],
        a.0[1].rotate_left(13) ^ a.0[0],
        a.0[2].rotate_left(19) ^ a.0[1],
        a.0[3].rotate_left(23) ^ a.0[2],
    ]
}

/// is_less_than_modulus(l) <=> val(l) < p
#[kani::proof]
#[kani::unwind(10)]
fn c25519_fp_is_less_than_modulus_spec() {
    let a: [u64; 4] = kani::any();
    assert!(Fp::is_less_than_modulus(&a) == lt4(a, Fp::MODULUS_LIMBS));
}

/// from_bytes accepts exactly the canonical encodings (is_some <=> le(bytes) < p) and its value is
/// Fp(le64 limbs of the INPUT) * R2.
#[kani::proof]
#[kani::unwind(10)]
#[kani::stub(Fp::mul, stub_mul)]
fn c25519_fp_from_bytes_canonical() {
    let b: [u8; 32] = kani::any();
    let limbs = [le64(&b, 0), le64(&b, 8), le64(&b, 16), le64(&b, 24)];
    let r = Fp::from_bytes(&b);
    assert!(bool::from(r.is_some()) == lt4(limbs, Fp::MODULUS_LIMBS));
    let v = r.unwrap_or(Fp([1, 2, 3, 4]));
    if lt4(limbs, Fp::MODULUS_LIMBS) {
        let e = Fp(limbs).mul(&Fp::R2);
        assert!(v.0[0] == e.0[0] && v.0[1] == e.0[1] && v.0[2] == e.0[2] && v.0[3] == e.0[3]);
    }
}

/// to_bytes = little-endian bytes of from_mont()
#[kani::proof]
#[kani::unwind(10)]
#[kani::stub(Fp::from_mont, stub_from_mont)]
fn c25519_fp_to_bytes_plumbing() {
    let x = Fp(kani::any());
    let out = x.to_bytes();
    let t = x.from_mont();
    assert!(le64(&out, 0) == t[0] && le64(&out, 8) == t[1] && le64(&out, 16) == t[2] && le64(&out, 24) == t[3]);
}

/// PrimeField::MODULUS (hex string) denotes the integer of MODULUS_LIMBS
#[kani::proof]
#[kani::unwind(70)]
fn c25519_fp_modulus_string() {
    let s = <Fp as PrimeField>::MODULUS.as_bytes();
    assert!(s.len() == 66 && s[0] == b'0' && s[1] == b'x');
    let mut limbs = [0u64; 4];
    let mut i = 0;
    while i < 64 {
        let c = s[2 + i];
        let v = if c >= b'0' && c <= b'9' { (c - b'0') as u64 } else { (c - b'a' + 10) as u64 };
        let pos = 63 - i;
        limbs[pos / 16] |= v << (4 * (pos % 16));
        i += 1;
    }
    assert!(limbs[0] == Fp::MODULUS_LIMBS[0] && limbs[1] == Fp::MODULUS_LIMBS[1] && limbs[2] == Fp::MODULUS_LIMBS[2] && limbs[3] == Fp::MODULUS_LIMBS[3]);
}
