// Chunking arithmetic of proofs/src/utils/arithmetic.rs (parallelize, eval_polynomial): the `let`
// initialisers are sliced out of the rayon / closure-heavy functions and verified as integer functions.
// What is dropped: the closures, the rayon scope, and the std slice-splitting calls, whose contracts
// (split_at_mut, chunks_exact_mut, chunks, zip) the lemma below is phrased against.
// usize = 64 bits on every supported target (stated global assumption)
global size_of usize == 8;

use vstd::arithmetic::div_mod::*;

// TRUSTED: vstd has no specification for usize::div_ceil; this is its documented behaviour
// ("the quotient of self and rhs, rounded towards positive infinity; panics if rhs is zero").
pub assume_specification [usize::div_ceil] (a: usize, b: usize) -> (r: usize)
    requires b != 0,
    ensures r as int == (a as int + b as int - 1) / (b as int);

use vstd::arithmetic::mul::*;

/// parallelize: with base = total / threads, cut = total % threads, split = cut * (base + 1):
///  * v.split_at_mut(split) is in range;
///  * v_hi = v[..split] is exactly `cut` chunks of size base + 1 (chunks_exact_mut leaves no remainder);
///  * v_lo = v[split..] is exactly `threads - cut` chunks of size base (or empty when base = 0);
///  * chunk i of v_hi starts at i*(base+1), chunk j of v_lo at split + j*base: the offsets handed to the
///    workers are the global indices, chunks are disjoint and cover the slice.
proof fn lemma_parallelize_partition(total: nat, threads: nat)
    requires threads >= 1,
    ensures ({
        let base = total / threads;
        let cut = total % threads;
        let split = cut * (base + 1);
        &&& split <= total
        &&& total - split == (threads - cut) * base
        &&& (base == 0 ==> total - split == 0)
        &&& (cut == 0 ==> split == 0)
        &&& forall|i: nat| i < cut ==> #[trigger] (i * (base + 1)) + (base + 1) <= split
        &&& forall|j: nat| j < threads - cut ==> split + #[trigger] (j * base) + base <= total
    }),
{
    let base = total / threads;
    let cut = total % threads;
    let split = cut * (base + 1);
    lemma_fundamental_div_mod(total as int, threads as int);
    lemma_mod_bound(total as int, threads as int);
    assert(total == threads * base + cut);
    assert(cut * (base + 1) == cut * base + cut) by (nonlinear_arith);
    assert((threads - cut) * base == threads * base - cut * base) by (nonlinear_arith);
    assert(threads * base >= cut * base) by (nonlinear_arith) requires threads >= cut, base >= 0;
    assert forall|i: nat| i < cut implies #[trigger] (i * (base + 1)) + (base + 1) <= split by {
        assert((i + 1) * (base + 1) <= cut * (base + 1)) by (nonlinear_arith) requires i + 1 <= cut, base >= 0;
        assert((i + 1) * (base + 1) == i * (base + 1) + (base + 1)) by (nonlinear_arith);
    }
    assert forall|j: nat| j < threads - cut implies split + #[trigger] (j * base) + base <= total by {
        assert((j + 1) * base <= (threads - cut) * base) by (nonlinear_arith) requires j + 1 <= threads - cut, base >= 0;
        assert((j + 1) * base == j * base + base) by (nonlinear_arith);
    }
}

/// eval_polynomial (chunked branch, 2n >= threads, hence n >= 1): chunk = ceil(n / threads) >= 1 and
/// poly.chunks(chunk) yields ceil(n / chunk) <= threads chunks, so zip with the `threads` output cells
/// drops no coefficient; chunk i starts at coefficient i*chunk.
proof fn lemma_eval_chunks(n: int, threads: int)
    requires threads >= 1, n >= 1,
    ensures ({
        let chunk = (n + threads - 1) / threads;
        &&& chunk >= 1
        &&& (n + chunk - 1) / chunk <= threads
        &&& forall|i: int| 0 <= i < (n + chunk - 1) / chunk ==> #[trigger] (i * chunk) < n
    }),
{
    let chunk = (n + threads - 1) / threads;
    lemma_fundamental_div_mod(n + threads - 1, threads);
    lemma_mod_bound(n + threads - 1, threads);
    assert(threads * chunk >= n);
    assert(chunk >= 1) by (nonlinear_arith) requires threads * chunk >= n, n >= 1, threads >= 1;
    let k = (n + chunk - 1) / chunk;
    lemma_fundamental_div_mod(n + chunk - 1, chunk);
    lemma_mod_bound(n + chunk - 1, chunk);
    assert(chunk * k <= n + chunk - 1);
    assert(k <= threads) by (nonlinear_arith)
        requires chunk * k <= n + chunk - 1, threads * chunk >= n, chunk >= 1, threads >= 1;
    assert forall|i: int| 0 <= i < k implies #[trigger] (i * chunk) < n by {
        assert(i * chunk <= (k - 1) * chunk) by (nonlinear_arith) requires i <= k - 1, chunk >= 1;
        assert((k - 1) * chunk == chunk * k - chunk) by (nonlinear_arith);
    }
}
