"""C16 -- ZKIR program decoders (zkir/src/zkir.rs): no decoder hands out a relation that bypassed the
arity validation.

Type invariant of ZkirRelation: every instruction of `program` passed Instruction::check_arity (the
off-circuit and in-circuit parsers index inps[0] / inps[1] and zip outputs with values on that
assumption -- a relation violating it makes compilation PANIC instead of returning InvalidArity).

  * from_instructions establishes the invariant: Ok exactly when check_arity succeeds on every
    instruction, and the program it stores is the argument (to_vec);
  * read_relation (bincode; reached from MidnightPK::<ZkirRelation>::read) and read (JSON) return Ok
    exactly when the decode succeeds AND from_instructions accepts the decoded instructions, and carry
    from_instructions' value;
  * CONSTRUCTORS: from_instructions is the only function holding a struct literal of ZkirRelation.

External calls are atoms (assumed contracts): bincode::decode_from_std_read, serde_json::from_str,
Instruction::check_arity, Iterator::try_for_each (Ok iff the closure is Ok on every element).
NOT decided here: that check_arity's table is what the parsers need (the parsers are out of reach)."""
import sympy as sp

from polyvc import Env, Opt, Struct, Tuple, Unsupported

FILE = "zkir/src/zkir.rs"
PROP = "C16"
LABEL = "zkir"
CONSTANTS_PROPS = ["C16", "C18"]
TRUSTED = [
    "c16_zkir_routing: bincode::decode_from_std_read / serde_json::from_str / Instruction::check_arity / Iterator::try_for_each are atoms (assumed: try_for_each is Ok iff the closure is Ok on every element)",
    "c16_zkir_routing: that Instruction::check_arity accepts only instructions the off-circuit / in-circuit parsers can process without panicking is NOT decided (parsers out of reach)",
]

TRUE = ("const", True)


def opaque(name):
    return Struct("Opaque", {"_name": name})


def make_env():
    env = Env()
    decoded = Struct("Program", {"instructions": Struct("Slice", {"_name": "decoded.instructions"}), "_name": "decoded"})
    env.calls[("bincode", "decode_from_std_read")] = lambda en, a: Opt(Tuple([decoded, sp.Symbol("bytes_read")]), ("atom", "bincode_decode_ok"))
    env.calls[("bincode", "config", "standard")] = lambda en, a: opaque("bincode-config")
    env.calls[("serde_json", "from_str")] = lambda en, a: Opt(decoded, ("atom", "json_decode_ok"))
    env.consts[("io", "Error", "other")] = opaque("io::Error::other")

    def from_instructions(en, a):
        if len(a) != 1 or not isinstance(a[0], Struct) or a[0].ty != "Slice":
            raise Unsupported("from_instructions on an unexpected argument")
        nm = a[0].fields["_name"]
        return Opt(Struct("ZkirRelation", {"_name": "from_instructions(%s)" % nm}), ("atom", "arity_ok:" + nm))
    env.calls[("Self", "from_instructions")] = from_instructions
    env.calls[("ZkirRelation", "from_instructions")] = from_instructions
    env.calls[("Ok",)] = lambda en, a: Opt(a[0], TRUE)
    env.calls[("Err",)] = lambda en, a: Opt(opaque("err"), ("const", False))
    for ctor in (("Rc", "new"), ("RefCell", "new"), ("Vec", "new"), ("Default", "default")):
        env.calls[ctor] = lambda en, a: opaque("fresh")
    env.methods[("Opt", "map")] = lambda en, r, a: Opt(a[0](r.value), r.cond)
    env.methods[("Opt", "map_err")] = lambda en, r, a: r
    # slices / iterators of instructions
    env.methods[("Slice", "iter")] = lambda en, r, a: Struct("Iter", {"of": r.fields["_name"]})
    env.methods[("Slice", "to_vec")] = lambda en, r, a: Struct("Slice", {"_name": r.fields["_name"]})
    env.methods[("Slice", "clone")] = lambda en, r, a: r
    env.methods[("Instruction", "check_arity")] = lambda en, r, a: Opt(opaque("()"), ("atom", "check_arity:" + r.fields["_name"]))

    def try_for_each(en, r, a):
        if len(a) != 1 or not callable(a[0]):
            raise Unsupported("try_for_each without a closure")
        res = a[0](Struct("Instruction", {"_name": "elem"}))
        if not isinstance(res, Opt):
            raise Unsupported("try_for_each closure does not return a Result")
        if res.cond == ("atom", "check_arity:elem"):
            return Opt(opaque("()"), ("atom", "arity_ok:" + r.fields["of"]))
        if res.cond == TRUE:
            return Opt(opaque("()"), TRUE)
        raise Unsupported("try_for_each closure is not `check_arity` on the element")
    env.methods[("Iter", "try_for_each")] = try_for_each
    return env


def _is_from_instructions(v, loc):
    return isinstance(v, Struct) and v.ty == "ZkirRelation" and v.fields.get("_name") == "from_instructions(decoded.instructions)"


def _stores_argument(v, loc):
    try:
        return v.fields["program"].fields["instructions"].fields["_name"] == "instructions"
    except (AttributeError, KeyError):
        return False


PREDICATES = {
    "ZkirRelation::read_relation": {
        "item": ["impl Relation for ZkirRelation", "fn read_relation"],
        "inputs": lambda: {"reader": opaque("reader")},
        "spec": lambda loc: ("and", ("atom", "bincode_decode_ok"), ("atom", "arity_ok:decoded.instructions")),
        "value": _is_from_instructions, "props": ["C16", "C18"], "witness": "read_relation",
        "clause": "Ok exactly when the bincode decode succeeds AND ZkirRelation::from_instructions accepts the decoded instructions (arity validation is not bypassed); the relation returned is from_instructions' value",
    },
    "ZkirRelation::read": {
        "item": ["impl ZkirRelation", "fn read"],
        "inputs": lambda: {"raw": opaque("raw")},
        "spec": lambda loc: ("and", ("atom", "json_decode_ok"), ("atom", "arity_ok:decoded.instructions")),
        "value": _is_from_instructions, "props": ["C16", "C18"], "witness": "read",
        "clause": "Ok exactly when the JSON decode succeeds AND from_instructions accepts the decoded instructions; the relation returned is from_instructions' value",
    },
    "ZkirRelation::from_instructions": {
        "item": ["impl ZkirRelation", "fn from_instructions"],
        "inputs": lambda: {"instructions": Struct("Slice", {"_name": "instructions"})},
        "spec": lambda loc: ("atom", "arity_ok:instructions"),
        "value": _stores_argument, "props": ["C16", "C18"], "witness": "from_instructions",
        "clause": "Ok exactly when Instruction::check_arity succeeds on every instruction (try_for_each), and the stored program is the argument",
    },
}

def _arity_env():
    env = Env()
    env.methods[("Operation", "input_arity")] = lambda en, r, a: Struct("Arity", {"_name": "input_arity(op)"})
    env.methods[("Operation", "output_arity")] = lambda en, r, a: Struct("Arity", {"_name": "output_arity(op)"})
    env.methods[("VecS", "len")] = lambda en, r, a: Struct("Len", {"_name": r.fields["_name"] + ".len"})

    def check(en, r, a):
        if len(a) != 2 or not isinstance(a[0], Struct) or a[0].ty != "Len" or getattr(a[1], "ty", "") != "Operation":
            raise Unsupported("Arity::check on unexpected arguments")
        return Opt(opaque("()"), ("atom", "%s.check(%s)" % (r.fields["_name"], a[0].fields["_name"])))
    env.methods[("Arity", "check")] = check
    return env


PREDICATES["Instruction::check_arity"] = {
    "file": "zkir/src/instructions/arity.rs",
    "item": ["impl Instruction", "fn check_arity"],
    "env": _arity_env,
    "inputs": lambda: {"self": Struct("Instruction", {"operation": Struct("Operation", {"_name": "op"}),
                                                      "inputs": Struct("VecS", {"_name": "inputs"}),
                                                      "outputs": Struct("VecS", {"_name": "outputs"})})},
    "spec": lambda loc: ("and", ("atom", "input_arity(op).check(inputs.len)"), ("atom", "output_arity(op).check(outputs.len)")),
    "props": ["C16", "C18"], "witness": "check_arity",
    "clause": "Ok exactly when the input count passes the operation's input arity AND the output count passes its output arity (Arity::check is under a Kani contract in unit c16_zkir_arity)",
}

CONSTRUCTORS = {
    "ZkirRelation.constructors": {
        "type": "ZkirRelation", "allowed": ["from_instructions"], "props": ["C16", "C18"],
        "clause": "from_instructions (which establishes the arity invariant) is the only function of zkir/src/zkir.rs holding a struct literal of ZkirRelation",
    },
}


# ---------------------------------------------------------------- arity table vs. the parsers' needs
# process_instruction (off-circuit and in-circuit) is documented "Instructions are assumed to have the
# right arity": it indexes inps[k] and hands `outputs` to insert_many, which asserts
# names.len() == values.len().  Obligation (the precondition check_arity must establish): for every
# operation, the arity table admits only input counts that cover every index the arm uses, and output
# counts equal to the number of values the arm produces (where the arm ends in a vec![..] literal).
import re as _re

import rustscan as _rs


def _arity_table(text, fn):
    it = _rs.find_item(text, ["impl Operation", "fn " + fn])
    body = _rs.fn_body_text(text, it)
    tab = {}
    for mm in _re.finditer(r"(\w+)(?:\(_\))? => (Fixed\((\d+)\)|SomeEven|Some)(?=[,\s}])", body):
        tab[mm.group(1)] = ("Fixed", int(mm.group(3))) if mm.group(3) is not None else (mm.group(2), None)
    if not tab:
        raise Unsupported("lost anchor: arity table %s" % fn)
    return tab


def _arms(text, item):
    it = _rs.find_item(text, item)
    body = _rs.fn_body_text(text, it)
    i = body.find("match instruction.operation {")
    if i < 0:
        raise Unsupported("lost anchor: `match instruction.operation` in %s" % item)
    o = body.index("{", i)
    depth, j = 0, o
    while True:
        depth += body[j] == "{"
        depth -= body[j] == "}"
        if depth == 0:
            break
        j += 1
    inner = body[o + 1:j]
    # split arms at depth 0 on `Name =>` / `Name(x) =>`
    starts = []
    depth = 0
    for k, ch in enumerate(inner):
        if ch in "([{":
            depth += 1
        elif ch in ")]}":
            depth -= 1
        elif depth == 0:
            mm = _re.match(r"(\w+)(\(\w+\))? => ", inner[k:])
            if mm and (k == 0 or inner[k - 1] in " ,}"):
                starts.append((k, mm.group(1)))
    arms = {}
    for n, (k, name) in enumerate(starts):
        end = starts[n + 1][0] if n + 1 < len(starts) else len(inner)
        arms[name] = inner[k:end]
    return arms


def _vec_count(arm):
    """number of elements of the vec![..] literal the arm evaluates to, or None"""
    t = arm.rstrip().rstrip(",").rstrip()
    if t.endswith("}"):
        t = t[:-1].rstrip()
    i = t.rfind("vec![")
    if i < 0 or not t.endswith("]"):
        return None
    inner = t[i + 5:-1]
    # the literal must close exactly at the end
    depth = 0
    for ch in inner:
        depth += ch in "([{"
        depth -= ch in ")]}"
        if depth < 0:
            return None
    if inner.strip() == "":
        return 0
    depth, n = 0, 1
    for ch in inner.rstrip().rstrip(","):
        if ch in "([{":
            depth += 1
        elif ch in ")]}":
            depth -= 1
        elif ch == "," and depth == 0:
            n += 1
    return n


def constants_check(read):
    ar = read("zkir/src/instructions/arity.rs")
    tin, tout = _arity_table(ar, "input_arity"), _arity_table(ar, "output_arity")
    res = []
    for label, file, item in (("offcircuit", "zkir/src/parser/offcircuit.rs", ["impl Parser", "fn process_instruction"]),
                              ("incircuit", "zkir/src/parser/incircuit.rs", ["impl Parser", "fn process_instruction"])):
        arms = _arms(read(file), item)
        if set(arms) != set(tin) or set(arms) != set(tout):
            raise Unsupported("operations of the %s parser %s differ from the arity tables %s" % (label, sorted(arms), sorted(tin)))
        bad = []
        for op, arm in sorted(arms.items()):
            idx = [int(x) for x in _re.findall(r"\binps\[(\d+)\]", arm)]
            kmax = max(idx) if idx else -1
            kind, n = tin[op]
            min_len = n if kind == "Fixed" else (1 if kind == "Some" else 2)
            if kmax >= min_len:
                bad.append("%s: arm indexes inps[%d] but input arity %s admits %d inputs" % (op, kmax, kind if n is None else "Fixed(%d)" % n, min_len))
            m = _vec_count(arm)
            okind, on = tout[op]
            if m is not None and not (okind == "Fixed" and on == m):
                bad.append("%s: arm produces %d values but output arity is %s (insert_many asserts equal lengths)" % (op, m, okind if on is None else "Fixed(%d)" % on))
        res.append(("arity_table_covers_%s_parser" % label, not bad,
                    "for every operation, check_arity admits only input counts covering every inps[k] the %s parser's arm uses and output counts equal to the number of values the arm's vec![..] produces (%s)"
                    % (label, "; ".join(bad) if bad else "%d operations" % len(arms))))
    return res


# ---------------------------------------------------------------- external callees that panic
PANICSITES = {
    "into_bytes.biguint_allocation": {
        "file": "zkir/src/instructions/operations/into_bytes.rs", "item": ["impl IrValue", "fn into_bytes"],
        "call": r"\.resize\(n, 0\)",
        "guard": r"BigUint\(big\) => \{ (?:(?!\.resize).)*\bn (?:>|>=) ",
        "why": "Vec::resize(n, 0) allocates n bytes; n is the parameter of IntoBytes(n) in the (untrusted) IR program and is only checked from below (bytes.len() > n)",
        "props": ["C16"], "witness": "into_bytes_alloc",
        "clause": "the byte length n of IntoBytes(n) on a BigUint is bounded from above before `result.resize(n, 0)` allocates n bytes (C16: no allocation proportional to an unchecked length field; IntoBytes(usize::MAX) panics with `capacity overflow`)",
    },
    "mod_exp_offcircuit.zero_modulus": {
        "file": "zkir/src/instructions/operations/mod_exp.rs", "item": ["fn mod_exp_offcircuit"],
        "call": r"\.modpow\(", "guard": r"\bif [^{]*\bm\b[^{]*(is_zero\(\)|bits\(\) == 0|== &?BigUint::ZERO)[^{]*\{ return Err",
        "why": "num_bigint::BigUint::modpow panics when the modulus is zero; the modulus is a value of the (untrusted) IR program",
        "props": ["C16", "C18"], "witness": "mod_exp_zero_modulus",
        "clause": "BigUint::modpow (panics on a zero modulus) is called only after a guard that returns an error for a zero modulus",
    },
}


# ---------------------------------------------------------------- off-circuit vs in-circuit type tables (C18)
# For the three comparison operations the in-circuit side dispatches on the operand types and returns
# Error::Unsupported for every other combination.  C18: an ill-typed program must be rejected by BOTH sides, a
# well-typed one accepted by both.  Obligation: the off-circuit arm of the parser accepts exactly the type pairs the
# in-circuit function accepts.  An off-circuit arm without any type dispatch accepts every pair of values.
IR_TYPES = ["Bool", "Bytes", "Native", "BigUint", "JubjubPoint", "JubjubScalar"]


def _incircuit_pairs(read, fname, fn):
    text = read("zkir/src/instructions/operations/%s.rs" % fname)
    body = _rs.fn_body_text(text, _rs.find_item(text, ["fn " + fn]))
    pairs = set(_re.findall(r"\((\w+)\(\w+\), (\w+)\(\w+\)\)(?: if .*?)? =>", body))
    if not pairs or "_ =>" not in body:
        raise Unsupported("lost anchor: type dispatch of %s" % fn)
    return pairs


def _offcircuit_pairs(read, op):
    arms = _arms(read("zkir/src/parser/offcircuit.rs"), ["impl Parser", "fn process_instruction"])
    arm = arms.get(op)
    if arm is None:
        raise Unsupported("lost anchor: off-circuit arm of %s" % op)
    pairs = set(_re.findall(r"\((?:IrValue::)?(\w+)\(\w+\), (?:IrValue::)?(\w+)\(\w+\)\)", arm))
    if pairs:
        return pairs
    called = _re.findall(r"\b(\w+_offcircuit)\(", arm)
    if called:
        raise Unsupported("off-circuit arm of %s delegates to %s: table not extracted" % (op, called))
    # no dispatch at all (`inps[0] == inps[1]`): every pair of values is accepted
    return {(a, b) for a in IR_TYPES for b in IR_TYPES}


_prev_constants_check = constants_check


def constants_check(read):
    res = list(_prev_constants_check(read))
    for op, fname, fn in (("IsEqual", "is_equal", "is_equal_incircuit"), ("AssertEqual", "assert_equal", "assert_equal_incircuit"),
                          ("AssertNotEqual", "assert_not_equal", "assert_not_equal_incircuit")):
        inc = _incircuit_pairs(read, fname, fn)
        off = _offcircuit_pairs(read, op)
        only_off = sorted(off - inc)
        only_in = sorted(inc - off)
        same_type_only_off = [p for p in only_off if p[0] == p[1]]
        msg = "accepted off-circuit only: %d pairs (same-type: %s; the rest mixes two types); accepted in-circuit only: %s" % (
            len(only_off), same_type_only_off, only_in)
        res.append(("type_table_%s" % op, not only_off and not only_in,
                    "the off-circuit evaluation of %s accepts exactly the operand type pairs the in-circuit %s accepts (%s)" % (op, fn, msg if (only_off or only_in) else "tables agree"),
                    ["C18"], "equality_types"))
    return res
