"""C16 -- ZKIR program decoders (zkir/src/zkir.rs): no decoder hands out a relation that bypassed the
arity validation.

Type invariant of ZkirRelation: every instruction of `program` passed Instruction::check_arity (the
off-circuit and in-circuit parsers index inps[0] / inps[1] and zip outputs with values on that
assumption -- a relation violating it makes compilation PANIC instead of returning InvalidArity).

  * from_instructions establishes the invariant: Ok exactly when check_arity succeeds on every
    instruction, and the program it stores is the argument (to_vec);
  * read_relation (bincode; reached from MidnightPK::<ZkirRelation>::read) and read (JSON) return Ok
    exactly when the decode succeeds AND from_instructions accepts the decoded instructions, and carry
    from_instructions' value;
  * CONSTRUCTORS: from_instructions is the only function holding a struct literal of ZkirRelation.

External calls are atoms (assumed contracts): bincode::decode_from_std_read, serde_json::from_str,
Instruction::check_arity, Iterator::try_for_each (Ok iff the closure is Ok on every element).
NOT decided here: that check_arity's table is what the parsers need (the parsers are out of reach)."""
import sympy as sp

from polyvc import Env, Opt, Struct, Tuple, Unsupported

FILE = "zkir/src/zkir.rs"
PROP = "C16"
LABEL = "zkir"
TRUSTED = [
    "c16_zkir_routing: bincode::decode_from_std_read / serde_json::from_str / Instruction::check_arity / Iterator::try_for_each are atoms (assumed: try_for_each is Ok iff the closure is Ok on every element)",
    "c16_zkir_routing: that Instruction::check_arity accepts only instructions the off-circuit / in-circuit parsers can process without panicking is NOT decided (parsers out of reach)",
]

TRUE = ("const", True)


def opaque(name):
    return Struct("Opaque", {"_name": name})


def make_env():
    env = Env()
    decoded = Struct("Program", {"instructions": Struct("Slice", {"_name": "decoded.instructions"}), "_name": "decoded"})
    env.calls[("bincode", "decode_from_std_read")] = lambda en, a: Opt(Tuple([decoded, sp.Symbol("bytes_read")]), ("atom", "bincode_decode_ok"))
    env.calls[("bincode", "config", "standard")] = lambda en, a: opaque("bincode-config")
    env.calls[("serde_json", "from_str")] = lambda en, a: Opt(decoded, ("atom", "json_decode_ok"))
    env.consts[("io", "Error", "other")] = opaque("io::Error::other")

    def from_instructions(en, a):
        if len(a) != 1 or not isinstance(a[0], Struct) or a[0].ty != "Slice":
            raise Unsupported("from_instructions on an unexpected argument")
        nm = a[0].fields["_name"]
        return Opt(Struct("ZkirRelation", {"_name": "from_instructions(%s)" % nm}), ("atom", "arity_ok:" + nm))
    env.calls[("Self", "from_instructions")] = from_instructions
    env.calls[("ZkirRelation", "from_instructions")] = from_instructions
    env.calls[("Ok",)] = lambda en, a: Opt(a[0], TRUE)
    env.calls[("Err",)] = lambda en, a: Opt(opaque("err"), ("const", False))
    for ctor in (("Rc", "new"), ("RefCell", "new"), ("Vec", "new"), ("Default", "default")):
        env.calls[ctor] = lambda en, a: opaque("fresh")
    env.methods[("Opt", "map")] = lambda en, r, a: Opt(a[0](r.value), r.cond)
    env.methods[("Opt", "map_err")] = lambda en, r, a: r
    # slices / iterators of instructions
    env.methods[("Slice", "iter")] = lambda en, r, a: Struct("Iter", {"of": r.fields["_name"]})
    env.methods[("Slice", "to_vec")] = lambda en, r, a: Struct("Slice", {"_name": r.fields["_name"]})
    env.methods[("Slice", "clone")] = lambda en, r, a: r
    env.methods[("Instruction", "check_arity")] = lambda en, r, a: Opt(opaque("()"), ("atom", "check_arity:" + r.fields["_name"]))

    def try_for_each(en, r, a):
        if len(a) != 1 or not callable(a[0]):
            raise Unsupported("try_for_each without a closure")
        res = a[0](Struct("Instruction", {"_name": "elem"}))
        if not isinstance(res, Opt):
            raise Unsupported("try_for_each closure does not return a Result")
        if res.cond == ("atom", "check_arity:elem"):
            return Opt(opaque("()"), ("atom", "arity_ok:" + r.fields["of"]))
        if res.cond == TRUE:
            return Opt(opaque("()"), TRUE)
        raise Unsupported("try_for_each closure is not `check_arity` on the element")
    env.methods[("Iter", "try_for_each")] = try_for_each
    return env


def _is_from_instructions(v, loc):
    return isinstance(v, Struct) and v.ty == "ZkirRelation" and v.fields.get("_name") == "from_instructions(decoded.instructions)"


def _stores_argument(v, loc):
    try:
        return v.fields["program"].fields["instructions"].fields["_name"] == "instructions"
    except (AttributeError, KeyError):
        return False


PREDICATES = {
    "ZkirRelation::read_relation": {
        "item": ["impl Relation for ZkirRelation", "fn read_relation"],
        "inputs": lambda: {"reader": opaque("reader")},
        "spec": lambda loc: ("and", ("atom", "bincode_decode_ok"), ("atom", "arity_ok:decoded.instructions")),
        "value": _is_from_instructions, "props": ["C16"], "witness": "read_relation",
        "clause": "Ok exactly when the bincode decode succeeds AND ZkirRelation::from_instructions accepts the decoded instructions (arity validation is not bypassed); the relation returned is from_instructions' value",
    },
    "ZkirRelation::read": {
        "item": ["impl ZkirRelation", "fn read"],
        "inputs": lambda: {"raw": opaque("raw")},
        "spec": lambda loc: ("and", ("atom", "json_decode_ok"), ("atom", "arity_ok:decoded.instructions")),
        "value": _is_from_instructions, "props": ["C16"], "witness": "read",
        "clause": "Ok exactly when the JSON decode succeeds AND from_instructions accepts the decoded instructions; the relation returned is from_instructions' value",
    },
    "ZkirRelation::from_instructions": {
        "item": ["impl ZkirRelation", "fn from_instructions"],
        "inputs": lambda: {"instructions": Struct("Slice", {"_name": "instructions"})},
        "spec": lambda loc: ("atom", "arity_ok:instructions"),
        "value": _stores_argument, "props": ["C16"], "witness": "from_instructions",
        "clause": "Ok exactly when Instruction::check_arity succeeds on every instruction (try_for_each), and the stored program is the argument",
    },
}

def _arity_env():
    env = Env()
    env.methods[("Operation", "input_arity")] = lambda en, r, a: Struct("Arity", {"_name": "input_arity(op)"})
    env.methods[("Operation", "output_arity")] = lambda en, r, a: Struct("Arity", {"_name": "output_arity(op)"})
    env.methods[("VecS", "len")] = lambda en, r, a: Struct("Len", {"_name": r.fields["_name"] + ".len"})

    def check(en, r, a):
        if len(a) != 2 or not isinstance(a[0], Struct) or a[0].ty != "Len" or getattr(a[1], "ty", "") != "Operation":
            raise Unsupported("Arity::check on unexpected arguments")
        return Opt(opaque("()"), ("atom", "%s.check(%s)" % (r.fields["_name"], a[0].fields["_name"])))
    env.methods[("Arity", "check")] = check
    return env


PREDICATES["Instruction::check_arity"] = {
    "file": "zkir/src/instructions/arity.rs",
    "item": ["impl Instruction", "fn check_arity"],
    "env": _arity_env,
    "inputs": lambda: {"self": Struct("Instruction", {"operation": Struct("Operation", {"_name": "op"}),
                                                      "inputs": Struct("VecS", {"_name": "inputs"}),
                                                      "outputs": Struct("VecS", {"_name": "outputs"})})},
    "spec": lambda loc: ("and", ("atom", "input_arity(op).check(inputs.len)"), ("atom", "output_arity(op).check(outputs.len)")),
    "props": ["C16"], "witness": "check_arity",
    "clause": "Ok exactly when the input count passes the operation's input arity AND the output count passes its output arity (Arity::check is under a Kani contract in unit c16_zkir_arity)",
}

CONSTRUCTORS = {
    "ZkirRelation.constructors": {
        "type": "ZkirRelation", "allowed": ["from_instructions"], "props": ["C16"],
        "clause": "from_instructions (which establishes the arity invariant) is the only function of zkir/src/zkir.rs holding a struct literal of ZkirRelation",
    },
}
