// Kani harness for the constant-recomposition slice of
// circuits/src/ecc/foreign/ecc_chip.rs :: mul_by_constant:
//     let n = scalar_as_big.to_u64_digits().iter().fold(...);
// sliced out with `scalar_as_big.to_u64_digits()` replaced by the parameter `digits`
// (num-bigint documents to_u64_digits as the little-endian base-2^64 digits).  The value n is the
// integer handed to mul_by_u128, so the contract is  n = sum digits[i] * 2^(64 i)  for every scalar of
// at most 128 bits (at most 2 digits): otherwise the circuit multiplies by a different constant.
use super::*;

#[kani::proof]
#[kani::unwind(4)]
fn fold_digits_is_the_scalar() {
    let len: usize = kani::any();
    kani::assume(len <= 2);
    let d0: u64 = kani::any();
    let d1: u64 = kani::any();
    let mut digits: Vec<u64> = Vec::new();
    if len >= 1 {
        digits.push(d0);
    }
    if len >= 2 {
        kani::assume(d1 != 0); // BigUint digits are normalised: no leading zero digit
        digits.push(d1);
    }
    let expect: u128 = match len {
        0 => 0,
        1 => d0 as u128,
        _ => (d0 as u128) + ((d1 as u128) << 64),
    };
    assert!(fold_digits(digits) == expect);
}
