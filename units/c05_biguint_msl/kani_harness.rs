// Contracts on the limb-size bookkeeping of BigUintGadget::assign_fixed_biguint / assign_bounded (let and
// sub-expression slices).  Loop-free over the full u32 domain: complete proofs of the sliced expressions.
use super::*;

#[kani::proof]
fn fixed_msl_contract() {
    let nb_bits: u32 = kani::any();
    kani::assume(nb_bits >= 1 && nb_bits <= u32::MAX - LOG2_BASE); // nb_bits = max(constant.bits(), 1); div_ceil must not overflow
    let n = fixed_nb_limbs(nb_bits) as u64;
    let b = fixed_msl_bound(nb_bits) as u64;
    assert!(n >= 1);
    assert!(b >= 1 && b <= LOG2_BASE as u64);
    assert!((n - 1) * LOG2_BASE as u64 + b == nb_bits as u64);
}

#[kani::proof]
fn bounded_msl_contract() {
    let nb_bits: u32 = kani::any();
    kani::assume(nb_bits <= u32::MAX - LOG2_BASE);
    let n = bounded_nb_limbs(nb_bits) as u64;
    let b = bounded_msl_bound(nb_bits) as u64; // must not overflow
    assert!(n >= 1);
    assert!(b <= LOG2_BASE as u64);
    assert!((b == 0) == (nb_bits == 0)); // only the 0-bit integer (the constant 0) has a 0-bit top limb
    assert!((n - 1) * LOG2_BASE as u64 + b == nb_bits as u64);
}
