// Kani harness for the nested fn `bitreverse` of curves/src/fft.rs::best_fft, extracted verbatim
// into a stand-alone crate (an injected module cannot name a fn nested in a fn).
use super::bitreverse;

fn spec_rev(n: usize, l: usize) -> usize {
    // bit i of n (i < l) goes to bit l-1-i
    let mut r: usize = 0;
    let mut i = 0;
    while i < l {
        if n & (1usize << i) != 0 {
            r |= 1usize << (l - 1 - i);
        }
        i += 1;
    }
    r
}

#[kani::proof]
#[kani::unwind(66)]
fn bitreverse_spec() {
    let n: usize = kani::any();
    let l: usize = kani::any();
    kani::assume(l <= 64);
    let r = bitreverse(n, l);
    assert!(r == spec_rev(n, l));
    if l < 64 {
        assert!(r < (1usize << l));
    }
}

/// involution on [0, 2^l): the `k < rk` swap loop of best_fft is therefore a permutation that
/// swaps each pair exactly once.
#[kani::proof]
#[kani::unwind(66)]
fn bitreverse_involution() {
    let n: usize = kani::any();
    let l: usize = kani::any();
    kani::assume(l <= 64);
    if l < 64 {
        kani::assume(n < (1usize << l));
    }
    assert!(bitreverse(bitreverse(n, l), l) == n);
}
