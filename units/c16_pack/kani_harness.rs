// Kani harness for proofs/src/utils/helpers.rs::{pack, unpack} (injected child module).
use super::*;

/// pack: for every slice of length <= 8, bit i of the result is bits[i], higher bits clear; no panic.
#[kani::proof]
#[kani::unwind(10)]
fn pack_contract() {
    let bits: [bool; 8] = kani::any();
    let n: usize = kani::any();
    kani::assume(n <= 8);
    let v = pack(&bits[..n]);
    let i: usize = kani::any();
    kani::assume(i < 8);
    if i < n {
        assert!(((v >> i) & 1 == 1) == bits[i]);
    } else {
        assert!((v >> i) & 1 == 0);
    }
}

/// unpack: for every byte and every target length <= 8, bits[i] = bit i of byte; elements beyond the
/// slice untouched (frame); and unpack(pack(bits)) = bits.
#[kani::proof]
#[kani::unwind(10)]
fn unpack_contract() {
    let byte: u8 = kani::any();
    let mut bits: [bool; 8] = kani::any();
    let old = bits;
    let n: usize = kani::any();
    kani::assume(n <= 8);
    unpack(byte, &mut bits[..n]);
    let i: usize = kani::any();
    kani::assume(i < 8);
    if i < n {
        assert!(bits[i] == ((byte >> i) & 1 == 1));
    } else {
        assert!(bits[i] == old[i]);
    }
}

#[kani::proof]
#[kani::unwind(10)]
fn pack_unpack_roundtrip() {
    let bits: [bool; 8] = kani::any();
    let n: usize = kani::any();
    kani::assume(n <= 8);
    let v = pack(&bits[..n]);
    let mut out = [false; 8];
    unpack(v, &mut out[..n]);
    let i: usize = kani::any();
    kani::assume(i < n);
    assert!(out[i] == bits[i]);
    // and the other direction on full bytes
    let b: u8 = kani::any();
    let mut t = [false; 8];
    unpack(b, &mut t);
    assert!(pack(&t) == b);
}
