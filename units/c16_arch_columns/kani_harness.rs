// Kani harness for the column-count computation of zk_stdlib/src/lib.rs :: ZkStdLib::configure.
// The architecture descriptor is UNTRUSTED input (it is decoded from the first bytes of a serialized
// verifying key by MidnightVK::read, then passed to configure).  The initialiser of `let nb_advice_cols`
// is sliced out together with the verbatim `struct ZkStdLibArch`; the per-chip column constants and the
// two generic column-count functions are replaced by symbolic parameters (fields of `Consts`), so the
// result holds for every value of those constants.
//
// Contract (property C16: decoding a verifying key "never panics"): configure takes the slices
//   advice_columns[..NB_ARITH_COLS]  and  advice_columns[1..=arch.nr_pow2range_cols as usize]
// so the number of allocated advice columns must be at least NB_ARITH_COLS and at least
// 1 + nr_pow2range_cols for EVERY descriptor.
use super::*;

pub struct Consts {
    pub arith: usize,
    pub edwards: usize,
    pub poseidon: usize,
    pub sha256: usize,
    pub sha512: usize,
    pub k256_field: usize,
    pub k256_ecc: usize,
    pub bls_field: usize,
    pub bls_ecc: usize,
    pub base64: usize,
    pub automata: usize,
    pub packed: usize,
    pub blake2b: usize,
}

#[kani::proof]
fn arch_pow2range_slice_in_bounds() {
    let arch = ZkStdLibArch {
        jubjub: kani::any(),
        poseidon: kani::any(),
        sha2_256: kani::any(),
        sha2_512: kani::any(),
        keccak_256: kani::any(),
        sha3_256: kani::any(),
        blake2b: kani::any(),
        secp256k1: kani::any(),
        bls12_381: kani::any(),
        base64: kani::any(),
        automaton: kani::any(),
        nr_pow2range_cols: kani::any(),
    };
    let c = Consts {
        arith: kani::any(),
        edwards: kani::any(),
        poseidon: kani::any(),
        sha256: kani::any(),
        sha512: kani::any(),
        k256_field: kani::any(),
        k256_ecc: kani::any(),
        bls_field: kani::any(),
        bls_ecc: kani::any(),
        base64: kani::any(),
        automata: kani::any(),
        packed: kani::any(),
        blake2b: kani::any(),
    };
    // column constants are small positive numbers
    kani::assume(c.arith >= 1 && c.arith <= 64 && c.edwards <= 64 && c.poseidon <= 64 && c.sha256 <= 64 && c.sha512 <= 64);
    kani::assume(c.k256_field <= 256 && c.k256_ecc <= 256 && c.bls_field <= 256 && c.bls_ecc <= 256);
    kani::assume(c.base64 <= 64 && c.automata <= 64 && c.packed <= 64 && c.blake2b <= 64);
    let nr = arch.nr_pow2range_cols as usize;
    // domain of configure: Pow2RangeChip::configure documents a panic unless nr < NB_ARITH_COLS; the
    // decoder contract below shows that every DECODED descriptor is inside this domain
    kani::assume(nr < c.arith);
    let nb = nb_advice_cols(arch, &c);
    assert!(nb >= c.arith); // advice_columns[..NB_ARITH_COLS]
    assert!(nb >= 1 + nr); // advice_columns[1..=nr_pow2range_cols]
}


fn sym_arch() -> ZkStdLibArch {
    ZkStdLibArch {
        jubjub: kani::any(),
        poseidon: kani::any(),
        sha2_256: kani::any(),
        sha2_512: kani::any(),
        keccak_256: kani::any(),
        sha3_256: kani::any(),
        blake2b: kani::any(),
        secp256k1: kani::any(),
        bls12_381: kani::any(),
        base64: kani::any(),
        automaton: kani::any(),
        nr_pow2range_cols: kani::any(),
    }
}

fn stub_format(_args: core::fmt::Arguments<'_>) -> String {
    String::new()
}

/// ZkStdLibArch::read (body slice; the reader and bincode are replaced by their results: any 4 version
/// bytes, any decoded descriptor or a decoding error): whatever it returns as Ok lies in the domain of
/// configure, i.e. an untrusted serialized key cannot drive configure into its documented panic.
#[kani::proof]
#[kani::stub(alloc::fmt::format, stub_format)]
fn arch_read_returns_only_configurable_descriptors() {
    let version_bytes: [u8; 4] = kani::any();
    let decoded: Result<ZkStdLibArch, String> = if kani::any() { Ok(sym_arch()) } else { Err(String::new()) };
    match ZkStdLibArch::arch_read(version_bytes, decoded) {
        Ok(a) => {
            assert!((a.nr_pow2range_cols as usize) < NB_ARITH_COLS);
            assert!(u32::from_le_bytes(version_bytes) == 1);
        }
        Err(_) => {}
    }
}
