// Functional contract of RawAutomaton::concat on the real text (verbatim extraction; vector-backed
// stand-ins for the hash collections).  BOUNDED: tiny symbolic automata, words of length <= 3.
use super::*;

const MAXS: usize = 2; // states per factor

fn sym_automaton() -> RawAutomaton {
    let nb: usize = kani::any();
    kani::assume(nb >= 1 && nb <= MAXS);
    let mut transitions: Vec<Vec<(Letter, usize)>> = Vec::new();
    let mut total = 0;
    let mut s = 0;
    while s < nb {
        let n: usize = kani::any();
        kani::assume(n <= 2 && total + n <= 2);
        total += n;
        let mut succ = Vec::new();
        let mut i = 0;
        while i < n {
            let c: u8 = kani::any();
            let t: usize = kani::any();
            kani::assume(c < 2 && t < nb);
            succ.push((Letter { char: c, marker: 0 }, t));
            i += 1;
        }
        transitions.push(succ);
        s += 1;
    }
    let initial_state: usize = kani::any();
    kani::assume(initial_state < nb);
    let mut finals = FxHashSet(Vec::new());
    let mut s = 0;
    while s < nb {
        let f: bool = kani::any();
        if f {
            finals.insert(s);
        }
        s += 1;
    }
    let mut markers = FxHashSet(Vec::new());
    if total > 0 {
        markers.insert(0usize);
    }
    RawAutomaton { deterministic: false, complete: false, initial_state, final_states: finals, transitions, markers }
}

/// NFA acceptance from a set of current states (bit mask; at most 8 states)
fn step(a: &RawAutomaton, cur: u8, c: u8) -> u8 {
    let mut next: u8 = 0;
    let mut s = 0;
    while s < a.transitions.len() {
        if cur & (1 << s) != 0 {
            let mut i = 0;
            while i < a.transitions[s].len() {
                let (l, t) = a.transitions[s][i];
                if l.char == c {
                    next |= 1 << t;
                }
                i += 1;
            }
        }
        s += 1;
    }
    next
}

fn accepting(a: &RawAutomaton, cur: u8) -> bool {
    let mut s = 0;
    while s < a.transitions.len() {
        if cur & (1 << s) != 0 && a.final_states.contains(&s) {
            return true;
        }
        s += 1;
    }
    false
}

fn accepts(a: &RawAutomaton, w: &[u8]) -> bool {
    let mut cur: u8 = 1 << a.initial_state;
    let mut i = 0;
    while i < w.len() {
        cur = step(a, cur, w[i]);
        i += 1;
    }
    accepting(a, cur)
}

fn well_formed(a: &RawAutomaton) -> bool {
    if a.transitions.is_empty() || a.transitions.len() > 8 || a.initial_state >= a.transitions.len() {
        return false;
    }
    let mut s = 0;
    while s < a.transitions.len() {
        let mut i = 0;
        while i < a.transitions[s].len() {
            if a.transitions[s][i].1 >= a.transitions.len() {
                return false;
            }
            i += 1;
        }
        s += 1;
    }
    true
}

#[kani::proof]
#[kani::unwind(9)]
fn concat_language_contract() {
    let a = sym_automaton();
    let b = sym_automaton();
    let c = RawAutomaton::concat(&[a.clone(), b.clone()]);
    assert!(well_formed(&c));
    let w: [u8; 3] = kani::any();
    kani::assume(w[0] < 2 && w[1] < 2 && w[2] < 2);
    let len: usize = kani::any();
    kani::assume(len <= 3);
    let word = &w[..len];
    // reference: some split u v
    let mut expect = false;
    let mut k = 0;
    while k <= len {
        if accepts(&a, &word[..k]) && accepts(&b, &word[k..]) {
            expect = true;
        }
        k += 1;
    }
    assert!(accepts(&c, word) == expect);
}
