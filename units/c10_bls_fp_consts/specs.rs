// Published constants of the BLS12-381 base field Fp (curves/src/bls12_381/fp.rs), extracted verbatim
// and checked by Verus' interpreter.  Montgomery representatives: value * 2^384 mod p.

// stand-in for the FFI struct `blst::blst_fp { pub l: [limb_t; 6] }` (layout assumption, listed)
struct blst_fp { l: [u64; 6] }

spec fn val6(a: [u64; 6]) -> int {
    a[0] as int + 0x1_0000_0000_0000_0000int * (a[1] as int + 0x1_0000_0000_0000_0000int * (a[2] as int + 0x1_0000_0000_0000_0000int * (a[3] as int
      + 0x1_0000_0000_0000_0000int * (a[4] as int + 0x1_0000_0000_0000_0000int * (a[5] as int)))))
}
spec fn pp() -> int { val6(MODULUS) }
spec fn r384() -> int {
    0x1_0000_0000_0000_0000int * 0x1_0000_0000_0000_0000int * 0x1_0000_0000_0000_0000int * 0x1_0000_0000_0000_0000int * 0x1_0000_0000_0000_0000int * 0x1_0000_0000_0000_0000int
}
spec fn modpow(b: int, e: nat, m: int) -> int
    decreases e
{
    if e == 0 { 1int % m } else if e % 2 == 0 { let h = modpow(b, e / 2, m); (h * h) % m } else { (b * modpow(b, (e - 1) as nat, m)) % m }
}
spec fn p2(n: nat) -> int
    decreases n
{
    if n == 0 { 1int } else { 2 * p2((n - 1) as nat) }
}
spec fn rinv() -> int { modpow(r384() % pp(), (pp() - 2) as nat, pp()) }
spec fn iota(x: Fp) -> int { (val6(x.0.l) * rinv()) % pp() }

proof fn lemma_fp_constants()
    ensures
        (rinv() * r384()) % pp() == 1,
        p2((NUM_BITS - 1) as nat) <= pp() < p2(NUM_BITS as nat),
        val6(ZERO.0.l) == 0,
        val6(R.0.l) < pp(), val6(R.0.l) == r384() % pp(),
        val6(TWO_INV.0.l) < pp(), (2 * iota(TWO_INV)) % pp() == 1,
        val6(GENERATOR.0.l) < pp(), iota(GENERATOR) == 2,
        modpow(2, ((pp() - 1) / 2) as nat, pp()) == pp() - 1,                 // quadratic non-residue
        val6(ZETA_BASE.0.l) < pp(), modpow(iota(ZETA_BASE), 3, pp()) == 1, iota(ZETA_BASE) != 1,
        (pp() - 1) % 2 == 0, ((pp() - 1) / 2) % 2 == 1,                        // two-adicity of p - 1 is 1
{
    assert((rinv() * r384()) % pp() == 1) by (compute_only);
    assert(p2((NUM_BITS - 1) as nat) <= pp() < p2(NUM_BITS as nat)) by (compute_only);
    assert(val6(ZERO.0.l) == 0) by (compute_only);
    assert(val6(R.0.l) < pp() && val6(R.0.l) == r384() % pp()) by (compute_only);
    assert(val6(TWO_INV.0.l) < pp() && (2 * iota(TWO_INV)) % pp() == 1) by (compute_only);
    assert(val6(GENERATOR.0.l) < pp() && iota(GENERATOR) == 2) by (compute_only);
    assert(modpow(2, ((pp() - 1) / 2) as nat, pp()) == pp() - 1) by (compute_only);
    assert(val6(ZETA_BASE.0.l) < pp() && modpow(iota(ZETA_BASE), 3, pp()) == 1 && iota(ZETA_BASE) != 1) by (compute_only);
    assert((pp() - 1) % 2 == 0 && ((pp() - 1) / 2) % 2 == 1) by (compute_only);
}
