// The in-circuit Poseidon sponge must step like the off-circuit one (body slices of both `absorb`s over a
// reduced state).  BOUNDED.
use super::*;

#[kani::proof]
#[kani::unwind(6)]
fn absorb_agreement_contract() {
    let q: [u8; 2] = kani::any();
    let ql: usize = kani::any();
    let inp: [u8; 2] = kani::any();
    let il: usize = kani::any();
    let sp: usize = kani::any();
    kani::assume(ql <= 2 && il <= 2 && sp <= 1);
    let mut a = St { queue: q[..ql].to_vec(), squeeze_position: sp };
    let mut b = a.clone();
    let r = Chip.absorb(&mut L, &mut a, &inp[..il]);
    assert!(r.is_ok());
    Cpu::absorb(&mut b, &inp[..il]);
    assert!(a.squeeze_position == b.squeeze_position);
    assert!(a.queue.len() == b.queue.len());
    let mut i = 0;
    while i < a.queue.len() {
        assert!(a.queue[i] == b.queue[i]);
        i += 1;
    }
}
