// Contracts on the `complete` flag of RawAutomaton (circuits/src/parsing/automaton.rs).  The flag
// initialisers are sliced out of the constructions (field / let slices, see unit.json) because the
// constructions themselves run on hashbrown tables, which CBMC does not get through (tried: a direct
// harness on RawAutomaton::concat(&[]) either fails an unwinding assertion inside hashbrown's resize or
// runs > 15 min).  What is dropped: everything of the functions except the flag expression.
use super::*;

/// concat: flag ==> (non-empty list && every factor flagged).  BOUNDED: at most 4 factors.
#[kani::proof]
#[kani::unwind(7)]
fn concat_complete_flag_contract() {
    let n: usize = kani::any();
    kani::assume(n <= 4);
    let f: [bool; 4] = kani::any();
    let arr = [
        RawAutomaton { complete: f[0] },
        RawAutomaton { complete: f[1] },
        RawAutomaton { complete: f[2] },
        RawAutomaton { complete: f[3] },
    ];
    let got = concat_complete(&arr[..n]);
    let mut all = n >= 1;
    let mut i = 0;
    while i < n {
        if !f[i] {
            all = false;
        }
        i += 1;
    }
    assert!(!got || all);
    kani::cover!(got && n == 2); // the flag can be set
}

#[kani::proof]
fn inter_powerset_complete_flag_contract() {
    let a = RawAutomaton { complete: kani::any() };
    let b = RawAutomaton { complete: kani::any() };
    assert!(!inter_complete(&a, &b) || (a.complete && b.complete));
    let completion: bool = kani::any();
    assert!(!powerset_complete(&a, completion) || a.complete || completion);
    kani::cover!(inter_complete(&a, &b));
}

#[kani::proof]
fn leaf_complete_flag_contract() {
    assert!(!epsilon_complete());
    assert!(!empty_complete());
    assert!(!byte_concat_complete());
    assert!(!remove_dead_states_complete());
}

fn check_markers(v: Vec<usize>, completion: bool) {
    let s = FxHashSet(v);
    let r = powerset_markers(&s, completion);
    let n = r.len();
    assert!(n <= 3);
    let x0 = if n > 0 { r[0] } else { 0 };
    let x1 = if n > 1 { r[1] } else { 0 };
    let x2 = if n > 2 { r[2] } else { 0 };
    let has = |v: usize| (n > 0 && x0 == v) || (n > 1 && x1 == v) || (n > 2 && x2 == v);
    // every marker of the input is encodable
    if s.0.len() >= 1 {
        assert!(has(s.0[0]));
    }
    if s.0.len() >= 2 {
        assert!(has(s.0[1]));
    }
    // no duplicates (Letter::encode takes the first position, decode indexes: a duplicate breaks the bijection)
    assert!(!(n > 1 && x0 == x1) && !(n > 2 && (x0 == x2 || x1 == x2)));
    // completion covers the unmarked letters
    assert!(!completion || has(0));
}

/// powerset_construction: the marker list used by encode / decode / completion.  BOUNDED: marker sets of
/// 0, 1 and 2 elements (sizes and the completion flag enumerated concretely -- symbolic sizes make CBMC
/// time out on reading back the collected Vec --, marker values symbolic).
#[kani::proof]
#[kani::unwind(5)]
fn powerset_markers_contract() {
    let a: usize = kani::any();
    let b: usize = kani::any();
    kani::assume(a != b);
    check_markers(vec![], true);
    check_markers(vec![], false);
    check_markers(vec![a], true);
    check_markers(vec![a], false);
    check_markers(vec![a, b], true);
    check_markers(vec![a, b], false);
}

#[kani::proof]
#[kani::unwind(4)]
fn universal_markers_contract() {
    let alphabet_size: usize = kani::any();
    kani::assume(alphabet_size >= 1 && alphabet_size <= 256);
    let m = universal_markers(alphabet_size);
    assert!(m.contains(&0));
}

/// redirect_final_to_initial: the state count passed to filter_map_transitions is the number of kept states.
#[kani::proof]
#[kani::unwind(6)]
fn redirect_state_count_contract() {
    let n: usize = kani::any();
    kani::assume(n >= 1 && n <= 4);
    let fin: [bool; 4] = kani::any();
    let initial: usize = kani::any();
    kani::assume(initial < n);
    let mut finals = FxHashSet(Vec::new());
    let mut kept = 0;
    let mut s = 0;
    while s < n {
        if fin[s] {
            finals.insert(s);
        }
        // the filter of the renaming: !final_states.contains(source) || source == initial_state
        if !fin[s] || s == initial {
            kept += 1;
        }
        s += 1;
    }
    let transitions: Vec<u8> = vec![0; n];
    let st = Finals { final_states: finals, initial_state: initial };
    let got = redirect_new_nb_states(&transitions, &st);
    assert!(got == kept);
}
