// Chunk bookkeeping of curves/src/msm.rs :: msm_parallel: the results vector must have one slot per chunk of
// `coeffs.chunks(chunk)`, because the chunks are zipped with `results.iter_mut()` (zip silently drops what does not
// fit: missing slots = missing terms of the sum).
global size_of usize == 8;

use vstd::arithmetic::div_mod::*;

/// number of chunks produced by `<[T]>::chunks(chunk)` on a slice of length `len`
pub open spec fn chunks_count(len: int, chunk: int) -> int {
    (len + chunk - 1) / chunk
}

// TRUSTED: contract of core::slice::Chunks::len ("ceil(len / chunk_size)", panics if chunk_size is 0)
#[verifier::external_body]
pub fn chunks_len(len: usize, chunk: usize) -> (r: usize)
    requires chunk > 0,
    ensures r as int == chunks_count(len as int, chunk as int),
{
    unimplemented!()
}
