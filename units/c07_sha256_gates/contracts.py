"""Contracts for the custom gates of the SHA-256 chip (circuits/src/hash/sha256/sha256_chip.rs,
closures passed to meta.create_gate inside `configure`), for PolyVC.

Specification side, derived from FIPS 180-4 and the limb layout named by each gate -- NOT from the
exponent tables in the code (see tools/sha_gate_spec.py):
  * a word is split into big-endian limbs of the stated bit lengths; limb i sits at bit offset
    lo_i = sum of the lengths to its right;
  * ROTR^r moves a limb from offset lo to (lo - r) mod 32 (the layouts are chosen so that no limb is
    split; this is asserted), SHR^r moves it to lo - r and drops the limbs that fall off entirely;
  * in spread form bit k has weight 4^k, in plain form 2^k;
  * "even/odd" outputs use the 11-11-10 layout.
Contract of every gate: its constraint set generates exactly the ideal of the specification
polynomials (both inclusions), so no constraint is missing, weakened or pointed at the wrong cell role.
"""
import sympy as sp

from sha_gate_spec import Word, gate as _gate, make_env, need  # noqa: F401

PROP = "C07"
LABEL = "sha256_gates"
FILE = "circuits/src/hash/sha256/sha256_chip.rs"
ITEM = ["impl<F: CircuitField> ComposableChip<F> for Sha256Chip<F>", "fn configure"]
TRUSTED = ["assumed contract: sha256/utils.rs expr_pow2_ip / expr_pow4_ip return sum 2^e_i*t_i / sum 4^e_i*t_i (generic loop, not in PolyVC's subset)"]
W = Word(32)
EOL = [11, 11, 10]
EO = (["s_evn_11a", "s_evn_11b", "s_evn_010"], ["s_odd_11a", "s_odd_11b", "s_odd_010"])
EO2 = (["s_evn_11a", "s_evn_11b", "s_evn_10"], ["s_odd_11a", "s_odd_11b", "s_odd_10"])
LA = [10, 9, 11, 2]
LE = [7, 12, 2, 5, 6]
LW = [12, 1, 1, 1, 7, 3, 4, 3]
NW = ["s12", "s1a", "s1b", "s1c", "s07", "s3a", "s04", "s3b"]


def gate(name, selector, spec_fn, clause):
    return _gate(ITEM, name, selector, spec_fn, clause)


def evn_odd(loc, names_e, names_o):
    return W.weighted(EOL, need(loc, names_e), 4) + 2 * W.weighted(EOL, need(loc, names_o), 4)


def spec_maj(loc):
    a, b, c = need(loc, ["sA", "sB", "sC"])
    return [(a + b + c) - evn_odd(loc, *EO)]


def spec_half_ch(loc):
    x, y, s1, s2, s = need(loc, ["sX", "sY", "summand_1", "summand_2", "sum"])
    return [(x + y) - evn_odd(loc, *EO), (s1 + s2) - s]


def spec_rot(lengths, names, ops, eo):
    def f(loc):
        c = need(loc, names)
        tot = 0
        for kind, r in ops:
            tot += W.rotr(lengths, c, r) if kind == "rotr" else W.shr(lengths, c, r)
        return [tot - evn_odd(loc, *eo)]
    return f


def spec_11_11_10(loc):
    p = need(loc, ["p11a", "p11b", "p_10"])
    (o,) = need(loc, ["output"])
    return [W.weighted(EOL, p, 2) - o]


def spec_dec(lengths, pn, sn):
    def f(loc):
        plain, sprdd = need(loc, ["plain", "sprdd"])
        return [W.weighted(lengths, need(loc, pn), 2) - plain, W.weighted(lengths, need(loc, sn), 4) - sprdd]
    return f


def spec_msg_word(loc):
    w = need(loc, ["w12", "w1a", "w1b", "w1c", "w07", "w3a", "w04", "w3b"])
    (plain,) = need(loc, ["plain"])
    one_bit = [w[i] * (w[i] - 1) for i, l in enumerate(LW) if l == 1]   # limbs not covered by the lookup
    return [W.weighted(LW, w, 2) - plain] + one_bit


FUNCTIONS = {
    "Maj": gate("Maj(A, B, C)", "q_maj", spec_maj, "~A + ~B + ~C = Evn + 2 Odd in the 11-11-10 layout"),
    "half_Ch": gate("half Ch(E, F, G)", "q_half_ch", spec_half_ch, "~X + ~Y = Evn + 2 Odd; summand_1 + summand_2 = sum"),
    "Sigma_0": gate("Σ₀(A)", "q_Sigma_0", spec_rot(LA, ["s10", "s09", "s11", "s02"], [("rotr", 2), ("rotr", 13), ("rotr", 22)], EO),
                    "spread ROTR2 + ROTR13 + ROTR22 of limbs (10,9,11,2) = Evn + 2 Odd"),
    "Sigma_1": gate("Σ₁(E)", "q_Sigma_1", spec_rot(LE, ["s07", "s12", "s02", "s05", "s06"], [("rotr", 6), ("rotr", 11), ("rotr", 25)], EO2),
                    "ROTR6, ROTR11, ROTR25 of limbs (7,12,2,5,6)"),
    "sigma_0": gate("σ₀(W)", "q_sigma_0", spec_rot(LW, NW, [("shr", 3), ("rotr", 7), ("rotr", 18)], EO2), "SHR3, ROTR7, ROTR18 of limbs (12,1,1,1,7,3,4,3)"),
    "sigma_1": gate("σ₁(W)", "q_sigma_1", spec_rot(LW, NW, [("shr", 10), ("rotr", 17), ("rotr", 19)], EO2), "SHR10, ROTR17, ROTR19 of limbs (12,1,1,1,7,3,4,3)"),
    "dec_11_11_10": gate("11-11-10 decomposition", "q_11_11_10", spec_11_11_10, "output = 2^21 p11a + 2^10 p11b + p10"),
    "dec_10_9_11_2": gate("10-9-11-2 decomposition", "q_10_9_11_2", spec_dec(LA, ["p10", "p09", "p11", "p02"], ["s10", "s09", "s11", "s02"]),
                          "plain and spread recomposition of limbs (10,9,11,2)"),
    "dec_7_12_2_5_6": gate("7-12-2-5-6 decomposition", "q_7_12_2_5_6", spec_dec(LE, ["p07", "p12", "p02", "p05", "p06"], ["s07", "s12", "s02", "s05", "s06"]),
                           "plain and spread recomposition of limbs (7,12,2,5,6)"),
    "dec_12_1x3_7_3_4_3": gate("12-1x3-7-3-4-3 decomposition", "q_12_1x3_7_3_4_3", spec_msg_word,
                               "plain recomposition of limbs (12,1,1,1,7,3,4,3) and a boolean constraint on EACH of the three 1-bit limbs (they bypass the spread lookup)"),
}


def spec_add_mod(loc):
    """sum of the summand cells = result + 2^32 * carry (one linear constraint; the range of carry and result is
    enforced by lookups elsewhere)"""
    names = [n for n in ("s0", "s1", "s2", "s3", "s4", "s5", "s6", "s7", "s8", "s9") if n in loc]
    if len(names) < 2:
        from polyvc import Unsupported
        raise Unsupported("add-mod gate no longer binds summand cells s0..")
    summands = need(loc, names)
    carry, result = need(loc, ["carry", "result"])
    return [sum(summands) - (result + carry * 2**32)]


FUNCTIONS["add_mod"] = gate("add mod 2^32", "q_add_mod_2_32", spec_add_mod, "sum of all summand cells = result + 2^32 carry")
