"""Contracts for the custom gates of the SHA-256 chip (circuits/src/hash/sha256/sha256_chip.rs,
closures passed to meta.create_gate inside `configure`), for PolyVC.

Specification side, derived from FIPS 180-4 and the limb layout named by each gate -- NOT from the
exponent tables in the code:
  * a word is split into big-endian limbs of the stated bit lengths; limb i sits at bit offset
    lo_i = sum of the lengths to its right;
  * ROTR^r moves a limb from offset lo to (lo - r) mod 32 (the layouts are chosen so that no limb is
    split; this is asserted), SHR^r moves it to lo - r and drops the limbs that fall off entirely;
  * in spread form bit k has weight 4^k, in plain form 2^k;
  * "even/odd" outputs use the 11-11-10 layout.
Contract of every gate: its constraint set generates exactly the ideal of the specification
polynomials (both inclusions), so no constraint is missing, weakened or pointed at the wrong cell role.

Assumed callee contracts (generic loops outside PolyVC's subset, 8 lines of code in sha256/utils.rs):
expr_pow2_ip(e, t) = sum 2^e_i t_i and expr_pow4_ip(e, t) = sum 4^e_i t_i.
"""
import sympy as sp

from polyvc import Env, Struct, Tuple, Unsupported, std_field_env

PROP = "C07"
LABEL = "sha256_gates"
FILE = "circuits/src/hash/sha256/sha256_chip.rs"
ITEM = ["impl<F: CircuitField> ComposableChip<F> for Sha256Chip<F>", "fn configure"]
TRUSTED = ["assumed contract: sha256/utils.rs expr_pow2_ip / expr_pow4_ip return sum 2^e_i*t_i / sum 4^e_i*t_i (generic loop, not in PolyVC's subset)"]


def make_env():
    env = Env()
    std_field_env(env, base_names=("F",))
    env.calls[("Rotation",)] = lambda en, a: a[0]
    env.calls[("Rotation", "cur")] = lambda en, a: sp.Integer(0)
    env.calls[("Rotation", "next")] = lambda en, a: sp.Integer(1)
    env.calls[("Rotation", "prev")] = lambda en, a: sp.Integer(-1)
    env.calls[("Expression", "from")] = lambda en, a: a[0]

    def query_advice(en, r, a):
        col, rot = a
        if not (isinstance(col, Struct) and col.ty == "Col"):
            raise Unsupported("query_advice on a non-column")
        return sp.Symbol("a%d_%s" % (int(col.fields["i"]), str(int(rot)).replace("-", "m")))
    env.methods[("Meta", "query_advice")] = query_advice

    def ip(base):
        def f(en, a):
            es, ts = a
            if not (isinstance(es, Tuple) and isinstance(ts, Tuple) and len(es.items) == len(ts.items)):
                raise Unsupported("expr_pow_ip arguments")
            return sum((sp.Integer(base) ** int(e)) * t for e, t in zip(es.items, ts.items))
        return f
    env.calls[("expr_pow2_ip",)] = ip(2)
    env.calls[("expr_pow4_ip",)] = ip(4)
    env.calls[("Constraints", "with_selector")] = lambda en, a: Struct("Constraints", {"selector": a[0], "polys": a[1]})
    return env


def gate_inputs(selector):
    def f():
        cols = Tuple([Struct("Col", {"i": sp.Integer(i)}) for i in range(8)])
        return {"advice_cols": cols, "meta": Struct("Meta", {}), selector: Struct("Selector", {"name": selector})}
    return f


def polys_of(out, selector):
    if not (isinstance(out, Struct) and out.ty == "Constraints"):
        raise Unsupported("gate closure does not end in Constraints::with_selector")
    if out.fields["selector"].fields.get("name") != selector:
        raise Unsupported("unexpected selector")
    return [t.items[1] for t in out.fields["polys"].items]


def need(loc, names):
    miss = [n for n in names if n not in loc]
    if miss:
        raise Unsupported("gate closure no longer binds the cell roles %s" % miss)
    return [loc[n] for n in names]


def offsets(lengths):
    lo, acc = [], 0
    for l in reversed(lengths):
        lo.append(acc)
        acc += l
    assert acc == 32
    return list(reversed(lo))


def weighted(lengths, cells, base):
    return sum(sp.Integer(base) ** o * c for o, c in zip(offsets(lengths), cells))


def rotr(lengths, cells, r, base=4):
    tot = 0
    for l, o, c in zip(lengths, offsets(lengths), cells):
        n = (o - r) % 32
        assert n + l <= 32, "limb would be split by ROTR %d" % r
        tot += sp.Integer(base) ** n * c
    return tot


def shr(lengths, cells, r, base=4):
    tot = 0
    for l, o, c in zip(lengths, offsets(lengths), cells):
        if o >= r:
            tot += sp.Integer(base) ** (o - r) * c
        else:
            assert o + l <= r, "limb would be split by SHR %d" % r
    return tot


def evn_odd(loc, names_e, names_o):
    e = need(loc, names_e)
    o = need(loc, names_o)
    return weighted([11, 11, 10], e, 4) + 2 * weighted([11, 11, 10], o, 4)


def same_ideal(selector, spec_fn):
    """goals: every spec poly in <gate polys>; converse: every gate poly in <spec polys>"""
    def goals(env, out, loc):
        I = polys_of(out, selector)
        spec = spec_fn(loc)
        env.hyps += I
        env.completeness = []
        env.converse = [("nothing_else.constraint_%d" % i, p, spec) for i, p in enumerate(I)]
        return [("spec_%d_enforced" % i, s) for i, s in enumerate(spec)]
    return goals


def gate(name, selector, spec_fn, clause):
    import re
    return {"item": ITEM, "closure": r'meta\.create_gate\(\s*"%s"\s*,\s*\|meta\|\s*\{' % re.escape(name),
            "inputs": gate_inputs(selector), "hyps": lambda loc: [], "goals": same_ideal(selector, spec_fn), "clause": clause}


EO = (["s_evn_11a", "s_evn_11b", "s_evn_010"], ["s_odd_11a", "s_odd_11b", "s_odd_010"])
EO2 = (["s_evn_11a", "s_evn_11b", "s_evn_10"], ["s_odd_11a", "s_odd_11b", "s_odd_10"])
LA = [10, 9, 11, 2]
LE = [7, 12, 2, 5, 6]
LW = [12, 1, 1, 1, 7, 3, 4, 3]
NW = ["s12", "s1a", "s1b", "s1c", "s07", "s3a", "s04", "s3b"]


def spec_maj(loc):
    a, b, c = need(loc, ["sA", "sB", "sC"])
    return [(a + b + c) - evn_odd(loc, *EO)]


def spec_half_ch(loc):
    x, y, s1, s2, s = need(loc, ["sX", "sY", "summand_1", "summand_2", "sum"])
    return [(x + y) - evn_odd(loc, *EO), (s1 + s2) - s]


def spec_Sigma0(loc):
    c = need(loc, ["s10", "s09", "s11", "s02"])
    return [rotr(LA, c, 2) + rotr(LA, c, 13) + rotr(LA, c, 22) - evn_odd(loc, *EO)]


def spec_Sigma1(loc):
    c = need(loc, ["s07", "s12", "s02", "s05", "s06"])
    return [rotr(LE, c, 6) + rotr(LE, c, 11) + rotr(LE, c, 25) - evn_odd(loc, *EO2)]


def spec_sigma0(loc):
    c = need(loc, NW)
    return [shr(LW, c, 3) + rotr(LW, c, 7) + rotr(LW, c, 18) - evn_odd(loc, *EO2)]


def spec_sigma1(loc):
    c = need(loc, NW)
    return [shr(LW, c, 10) + rotr(LW, c, 17) + rotr(LW, c, 19) - evn_odd(loc, *EO2)]


def spec_11_11_10(loc):
    p = need(loc, ["p11a", "p11b", "p_10"])
    (o,) = need(loc, ["output"])
    return [weighted([11, 11, 10], p, 2) - o]


def spec_dec(lengths, pn, sn):
    def f(loc):
        p = need(loc, pn)
        s = need(loc, sn)
        plain, sprdd = need(loc, ["plain", "sprdd"])
        return [weighted(lengths, p, 2) - plain, weighted(lengths, s, 4) - sprdd]
    return f


def spec_msg_word(loc):
    names = ["w12", "w1a", "w1b", "w1c", "w07", "w3a", "w04", "w3b"]
    w = need(loc, names)
    (plain,) = need(loc, ["plain"])
    one_bit = [w[i] * (w[i] - 1) for i, l in enumerate(LW) if l == 1]   # limbs not covered by the lookup
    return [weighted(LW, w, 2) - plain] + one_bit


FUNCTIONS = {
    "Maj": gate("Maj(A, B, C)", "q_maj", spec_maj, "~A + ~B + ~C = Evn + 2 Odd in the 11-11-10 layout"),
    "half_Ch": gate("half Ch(E, F, G)", "q_half_ch", spec_half_ch, "~X + ~Y = Evn + 2 Odd; summand_1 + summand_2 = sum"),
    "Sigma_0": gate("Σ₀(A)", "q_Sigma_0", spec_Sigma0, "spread(ROTR2)+spread(ROTR13)+spread(ROTR22) of limbs (10,9,11,2) = Evn + 2 Odd"),
    "Sigma_1": gate("Σ₁(E)", "q_Sigma_1", spec_Sigma1, "ROTR6, ROTR11, ROTR25 of limbs (7,12,2,5,6)"),
    "sigma_0": gate("σ₀(W)", "q_sigma_0", spec_sigma0, "SHR3, ROTR7, ROTR18 of limbs (12,1,1,1,7,3,4,3)"),
    "sigma_1": gate("σ₁(W)", "q_sigma_1", spec_sigma1, "SHR10, ROTR17, ROTR19 of limbs (12,1,1,1,7,3,4,3)"),
    "dec_11_11_10": gate("11-11-10 decomposition", "q_11_11_10", spec_11_11_10, "output = 2^21 p11a + 2^10 p11b + p10"),
    "dec_10_9_11_2": gate("10-9-11-2 decomposition", "q_10_9_11_2", spec_dec(LA, ["p10", "p09", "p11", "p02"], ["s10", "s09", "s11", "s02"]),
                          "plain and spread recomposition of limbs (10,9,11,2)"),
    "dec_7_12_2_5_6": gate("7-12-2-5-6 decomposition", "q_7_12_2_5_6", spec_dec(LE, ["p07", "p12", "p02", "p05", "p06"], ["s07", "s12", "s02", "s05", "s06"]),
                           "plain and spread recomposition of limbs (7,12,2,5,6)"),
    "dec_12_1x3_7_3_4_3": gate("12-1x3-7-3-4-3 decomposition", "q_12_1x3_7_3_4_3", spec_msg_word,
                               "plain recomposition of limbs (12,1,1,1,7,3,4,3) and a boolean constraint on EACH of the three 1-bit limbs (they bypass the spread lookup)"),
}
