// Contract on the square-and-multiply schedule of BigUintGadget::mod_exp over an abstract domain
// (exponent of x, reduced flag).  The loop runs over the bits of n: unwinding bound 65, full u64 domain.
use super::*;

#[kani::proof]
#[kani::unwind(66)]
fn mod_exp_contract() {
    let n: u64 = kani::any();
    let g = Gadget;
    let x = AssignedBigUint { e: 1, reduced: false }; // an arbitrary (possibly >= m) input
    let m = AssignedBigUint { e: 0, reduced: false };
    let r = g.mod_exp(&mut L, &x, n, &m);
    match r {
        Ok(v) => {
            assert!(v.e == n as u128); // value congruent to x^n
            assert!(v.reduced); // and it is the residue in [0, m)
        }
        Err(_) => assert!(false),
    }
}
