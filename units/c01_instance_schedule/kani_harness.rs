// Prover and verifier must absorb the instances into the transcript in the same order (body slice of
// compute_instances, capture slice of the verifier's absorption loops; stand-in transcript).  BOUNDED.
use super::*;

fn run(nb_committed: usize, len: [[usize; 2]; 2], val: [[u64; 2]; 2]) {
    let n: u64 = 3;
    let pk = ProvingKey { vk: Vk { domain: Domain { n }, cs: Cs } };
    // instance columns of the two proofs
    let c00 = [F(val[0][0])];
    let c01 = [F(val[0][1])];
    let c10 = [F(val[1][0])];
    let c11 = [F(val[1][1])];
    let p0: [&[F]; 2] = [&c00[..len[0][0]], &c01[..len[0][1]]];
    let p1: [&[F]; 2] = [&c10[..len[1][0]], &c11[..len[1][1]]];
    let all: [&[&[F]]; 2] = [&p0, &p1];

    // prover
    let mut tp = T::new();
    let r = compute_instances(&Params, &pk, &all, nb_committed, &mut tp);
    assert!(r.is_ok());

    // what the verifier is given: commitments of the committed columns (same digest of the padded column),
    // and the plain columns
    let commit = |col: &[F]| {
        let mut poly = pk.vk.domain.empty_lagrange();
        let mut i = 0;
        while i < col.len() {
            poly[i] = col[i];
            i += 1;
        }
        CS::commit_lagrange(&Params, &poly)
    };
    let k0 = [commit(p0[0]), commit(p0[1])];
    let k1 = [commit(p1[0]), commit(p1[1])];
    let committed: [&[Commitment]; 2] = [&k0[..nb_committed], &k1[..nb_committed]];
    let plain: [&[&[F]]; 2] = [&p0[nb_committed..], &p1[nb_committed..]];
    let mut tv = T::new();
    let r = verifier_absorb(&committed, &plain, &mut tv);
    assert!(r.is_ok());

    assert!(tp.n == tv.n);
    let mut i = 0;
    while i < tp.n {
        assert!(tp.log[i] == tv.log[i]);
        i += 1;
    }
}

// Column lengths are enumerated concretely and the four cell values are distinct constants except one
// symbolic cell (symbolic lengths / all-symbolic values make CBMC time out on the iterator/collect chains of
// the prover body).  Neither slice branches on a value, so distinct values identify the absorption order.
#[kani::proof]
#[kani::unwind(10)]
fn instance_absorption_order_nb0() {
    let x: u64 = kani::any();
    let val: [[u64; 2]; 2] = [[x, 12], [21, 22]];
    run(0, [[1, 1], [1, 1]], val);
}

#[kani::proof]
#[kani::unwind(10)]
fn instance_absorption_order_nb1() {
    let x: u64 = kani::any();
    let val: [[u64; 2]; 2] = [[x, 12], [21, 22]];
    run(1, [[1, 1], [1, 1]], val);
    run(1, [[0, 1], [1, 0]], val);
}

#[kani::proof]
#[kani::unwind(10)]
fn instance_absorption_order_nb2() {
    let x: u64 = kani::any();
    let val: [[u64; 2]; 2] = [[x, 12], [21, 22]];
    run(2, [[1, 1], [1, 1]], val);
}
