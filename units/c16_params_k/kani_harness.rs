// Contract on the header of ParamsKZG::read_custom (capture slice of the statements that turn the decoded
// 4-byte k into the point count n).  Loop-free over the full u32 domain: a complete proof of the sliced statements.
use super::*;

#[kani::proof]
fn point_count_contract() {
    let k: u32 = kani::any();
    let s: u32 = kani::any();
    kani::assume(s <= 32);
    match params_point_count(k, s) {   // must not overflow for any k
        Ok(n) => {
            assert!(k <= s);
            assert!(n as u64 == 1u64 << k);
        }
        Err(_) => {}
    }
}
