// Contract on the flag-consistency expression of Compressed::decode (sub-expression slice).  Loop-free,
// all 8 cases: a complete proof of the sliced expression.
use super::*;

#[kani::proof]
fn identity_flag_contract() {
    let i: bool = kani::any();
    let z: bool = kani::any();
    let s: bool = kani::any();
    let got = identity_flag_valid(Choice(i as u8), Choice(z as u8), Choice(s as u8));
    let want = (i && z && !s) || (!i && !z);
    assert!(got.0 == want as u8);
}
