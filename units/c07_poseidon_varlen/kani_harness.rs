// Contract on the chunk-index arithmetic of VarLenPoseidonGadget::poseidon_varlen (sub-expression
// slices, see unit.json).  Loop-free over the full usize domain: a complete proof of the slices.
use super::*;

#[kani::proof]
fn last_chunk_condition_contract() {
    let max_len: usize = kani::any();
    // precondition of poseidon_varlen (assert_eq!(MAX_LEN % RATE, 0)); a zero-length buffer has no chunk
    kani::assume(max_len >= RATE && max_len % RATE == 0);
    let cs = chunk_size();
    assert!(cs == RATE);
    let n_chunks = max_len / cs; // input.buffer has exactly MAX_LEN cells
    let i: usize = kani::any();
    kani::assume(i < n_chunks);
    // the filler-zeroing branch is taken exactly on the last chunk
    assert!(last_chunk_cond(i, max_len) == (i == n_chunks - 1));
    // marker of chunk i = number of cells from chunk i to the end of the buffer
    assert!(first_chunk_marker(i, max_len) == (n_chunks - i) * RATE);
    kani::cover!(last_chunk_cond(i, max_len));
}
