"""C16 -- VerifyingKey::read_from_cs (proofs/src/plonk/mod.rs) establishes the invariant of VerifyingKey.

Type invariant (= precondition of the private constructor `from_parts`, established by construction in
keygen_vk): there is exactly one fixed commitment per fixed column of the selector-free constraint
system.  verifier.rs relies on it when it indexes `vk.fixed_commitments[column.index()]` for every
fixed query of `vk.cs` -- a key that violates it makes verification PANIC (index out of bounds), which
is the "number of fixed commitments disagrees with the circuit" case named in the property text.

The decoder body is executed symbolically (PolyVC, imperative-decoder subset: `let mut`, `x?;`,
`if COND { return Err(..); }`, `&mut` rebinding by contracted callees).  Bytes read from the stream are
fresh integer symbols named by their position in the stream, so renaming locals does not change the
verdict.  The guards passed on the way to `from_parts` are the hypotheses; the obligation is that
`fixed_commitments.len() - cs.num_fixed_columns` lies in their ideal.

Callee contracts (ASSUMED, listed as trusted): Read::read_exact fills the buffer or fails;
uN::from_le_bytes is a function of the bytes; (0..n).map(|_| C::read(..)).collect::<Result<Vec<_>,_>>()
is Ok only with exactly n elements; ConstraintSystem::directly_convert_selectors_to_fixed(sel) requires
sel.len() == num_selectors (its assert_eq!) and returns a system with num_fixed_columns + num_selectors
fixed columns and no selectors (each selector calls self.fixed_column())."""
import sympy as sp

from polyvc import Env, MutRef, Opt, Struct, Tuple, Unsupported

FILE = "proofs/src/plonk/mod.rs"
PROP = "C16"
LABEL = "plonk"
TRUSTED = [
    "c16_vk_read: callee contracts of VerifyingKey::read_from_cs are assumed (see units/c16_vk_read/contracts.py): read_exact, from_le_bytes, range-map-collect into Result<Vec>, ConstraintSystem::directly_convert_selectors_to_fixed (+num_selectors fixed columns; asserts the selector count), permutation::VerifyingKey::read, EvaluationDomain::new",
    "c16_vk_read: the obligation is the precondition of VerifyingKey::from_parts (one fixed commitment per fixed column); that verifier.rs needs nothing more of a decoded key is not decided",
]


def opaque(name):
    return Struct("Opaque", {"_name": name})


def make_env():
    env = Env()
    env.pre_obligations = []
    env.pre_formulas = []
    env.reads = 0
    env.consts[("VERSION",)] = sp.Symbol("VERSION")
    env.consts[("F", "S")] = sp.Symbol("F_S")

    def read_exact(en, r, a):
        if len(a) != 1 or not isinstance(a[0], MutRef) or not isinstance(a[0].get(), Tuple):
            raise Unsupported("read_exact on something that is not `&mut <byte array local>`")
        n = len(a[0].get().items)
        k = en.reads
        en.reads += 1
        a[0].set(Tuple([sp.Symbol("stream%d_byte%d" % (k, i)) for i in range(n)]))
        return Opt(opaque("()"), ("atom", "read_exact#%d ok" % k))
    env.methods[("Reader", "read_exact")] = read_exact

    def from_le(en, a):
        if len(a) != 1 or not isinstance(a[0], Tuple) or not all(isinstance(x, sp.Symbol) for x in a[0].items):
            raise Unsupported("from_le_bytes of something that was not read from the stream")
        return sp.Symbol("le(%s)" % ",".join(x.name for x in a[0].items))
    for t in ("u8", "u16", "u32", "u64", "usize"):
        env.calls[(t, "from_le_bytes")] = from_le
    env.methods["into"] = lambda en, r, a: r
    clog2 = sp.Function("ceil_log2")

    def domain_new(en, a):
        # contract of EvaluationDomain::new(j, k): asserts extended_k <= F::S where
        # extended_k = k + ceil_log2(j - 1) (the loop doubling 2^extended_k until it reaches 2^k (j - 1))
        if len(a) != 2 or not all(isinstance(x, sp.Expr) for x in a):
            raise Unsupported("EvaluationDomain::new on unexpected arguments")
        ext = sp.expand(a[1] + clog2(a[0] - 1))
        en.pre_formulas.append(("precondition of EvaluationDomain::new: k + ceil_log2(j - 1) <= F::S (its assert!)",
                                en.path, ("not", ("atom", "%s > %s" % (ext, sp.Symbol("F_S")))))) 
        return opaque("domain")
    env.calls[("EvaluationDomain", "new")] = domain_new
    # u64::next_power_of_two().trailing_zeros() = ceil_log2 (for arguments >= 1; 0 -> 0 as well)
    env.methods["saturating_sub"] = lambda en, r, a: sp.expand(r - a[0])
    env.methods["next_power_of_two"] = lambda en, r, a: sp.Function("npo2")(r)
    env.methods["trailing_zeros"] = lambda en, r, a: clog2(r.args[0]) if getattr(r, "func", None) == sp.Function("npo2") else sp.Function("tz")(r)
    env.calls[("Commitment", "read")] = lambda en, a: Opt(opaque("commitment"), ("atom", "commitment_read ok"))
    env.methods[("ConstraintSystem", "degree")] = lambda en, r, a: sp.Symbol("cs_degree")

    def rmap(en, r, a):
        if len(a) != 1 or not callable(a[0]):
            raise Unsupported("map without a closure")
        return Struct("MapRange", {"lo": r.fields["lo"], "hi": r.fields["hi"], "f": a[0]})
    env.methods[("Range", "map")] = rmap

    def collect(en, r, a):
        elem = r.fields["f"](sp.Symbol("idx"))
        if not isinstance(elem, Opt):
            raise Unsupported("collect of a map whose closure does not return a Result")
        return Opt(Struct("Vec", {"len": sp.expand(r.fields["hi"] - r.fields["lo"])}), ("atom", "all elements read ok"))
    env.methods[("MapRange", "collect")] = collect

    def perm_read(en, a):
        return Opt(opaque("permutation_vk"), ("atom", "permutation read ok"))
    env.calls[("VerifyingKey", "read")] = perm_read

    def convert(en, r, a):
        if len(a) != 1 or not isinstance(a[0], Struct) or a[0].ty != "Vec":
            raise Unsupported("directly_convert_selectors_to_fixed on an unexpected argument")
        en.pre_obligations.append(("callee precondition: directly_convert_selectors_to_fixed asserts selectors.len() == num_selectors",
                                   sp.expand(a[0].fields["len"] - r.fields["num_selectors"])))
        cs2 = Struct("ConstraintSystem", dict(r.fields))
        cs2.fields["num_fixed_columns"] = sp.expand(r.fields["num_fixed_columns"] + r.fields["num_selectors"])
        cs2.fields["num_selectors"] = sp.Integer(0)
        return Tuple([cs2, opaque("selector polys")])
    env.methods[("ConstraintSystem", "directly_convert_selectors_to_fixed")] = convert

    def from_parts(en, a):
        if len(a) != 4 or getattr(a[1], "ty", "") != "Vec" or getattr(a[3], "ty", "") != "ConstraintSystem":
            raise Unsupported("from_parts on unexpected arguments")
        en.pre_obligations.append(("precondition of VerifyingKey::from_parts: fixed_commitments.len() == cs.num_fixed_columns",
                                   sp.expand(a[1].fields["len"] - a[3].fields["num_fixed_columns"])))
        return Struct("VerifyingKey", {"_name": "vk"})
    env.calls[("Self", "from_parts")] = from_parts
    env.calls[("Ok",)] = lambda en, a: Opt(a[0], ("const", True))
    return env


def _inputs():
    cs = Struct("ConstraintSystem", {"num_fixed_columns": sp.Symbol("cs_num_fixed_columns"), "num_selectors": sp.Symbol("cs_num_selectors"),
                                     "permutation": opaque("cs.permutation")})
    return {"reader": Struct("Reader", {"_name": "reader"}), "format": opaque("format"), "cs": cs}


FUNCTIONS = {
    "vk_read_from_cs.fixed_commitment_count": {
        "item": ["impl<F, CS> VerifyingKey<F, CS>", "fn read_from_cs"],
        "inputs": _inputs, "only": "ideal",
        "hyps": lambda loc: [],
        "goals": lambda env, out, loc: [],     # the goals are the callee preconditions collected on the way
        "witness": "fixed_commitment_count", "needs_witness": True,
        "clause": "whenever read_from_cs reaches VerifyingKey::from_parts, the guards it passed entail from_parts' precondition -- exactly one fixed commitment per fixed column of the selector-free constraint system (a key whose count field disagrees with the circuit must be rejected: the verifier indexes vk.fixed_commitments[column.index()]) -- and the assertion of directly_convert_selectors_to_fixed",
    },
    "vk_read_from_cs.domain_size": {
        "item": ["impl<F, CS> VerifyingKey<F, CS>", "fn read_from_cs"],
        "inputs": _inputs, "only": "formula",
        "hyps": lambda loc: [],
        "goals": lambda env, out, loc: [],
        "witness": "domain_size", "needs_witness": True,
        "clause": "the guards passed before EvaluationDomain::new(cs.degree(), k) imply its assertion k + ceil_log2(degree - 1) <= F::S (the extended evaluation domain must fit the field's 2-adicity): a key whose k byte is too large for the circuit's degree must be rejected, not panic",
    },
}
