"""C06 -- call-site precondition ledger of ForeignEccChip (circuits/src/ecc/foreign/ecc_chip.rs).

The chip's internal operations document `# Preconditions` (operands different from the identity,
p.x != q.x, ...) and state that the circuit does NOT become unsatisfiable when they are violated.  In a
contract-based reading every call site owes a proof of the callee's precondition.  Those proofs are
hand arguments (the comments at the call sites: accumulators of windowed_msm start from a random
point alpha, incomplete_add never returns the identity, add() branches on p = id / q = id / p.x = q.x
before calling assert_add, ...) and are NOT machine-checked: they are listed as trusted.  What IS
checked on every run: the set of functions documenting preconditions, and that each of them is
called only from the argued call sites (at most the argued number of times).  A call from anywhere
else has an unestablished precondition: the obligation is reported UNDECIDED, and promoted to a
VIOLATION only if the witness program finds a failing input on the real chip (MockProver, operand
classes P = Q, P = -Q, identity, shared scalars)."""
FILE = "circuits/src/ecc/foreign/ecc_chip.rs"
PROP = "C06"
LABEL = "foreign_ecc"
TRUSTED = [
    "c06_foreign_preconditions: the arguments that the REGISTERED call sites of incomplete_add / assert_double / assert_add / assert_slope / mul_by_u128 / windowed_msm / msm_by_le_bits / load_multi_select_table / multi_select establish the callee's documented preconditions are the hand arguments written as comments at those call sites; they are not machine-checked",
]

CALLSITES = {
    "preconditions": {
        "props": ["C06"],
        "clause": "`%s` (documents `# Preconditions`; violating them does not make the circuit unsatisfiable) is called only from the call sites for which the precondition is argued",
        "sites": {
            "incomplete_add": {"mul_by_u128": 1, "windowed_msm": 2},
            "assert_double": {"add": 1, "double": 1},
            "assert_add": {"add": 1, "incomplete_add": 1},
            "assert_slope": {"assert_double": 1, "assert_add": 2, "assert_slope": 1},
            "load_multi_select_table": {"k_out_of_n_points": 1, "windowed_msm": 1},
            "multi_select": {"windowed_msm": 1},
            "mul_by_u128": {"mul_by_constant": 1, "windowed_msm": 2},
            "windowed_msm": {"msm_by_bounded_scalars": 1, "msm_by_le_bits": 1},
            "msm_by_le_bits": {"mul_by_constant": 1},
        },
    },
}
