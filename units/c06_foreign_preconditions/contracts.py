"""C06 -- call-site precondition ledger of ForeignEccChip (circuits/src/ecc/foreign/ecc_chip.rs).

The chip's internal operations document `# Preconditions` (operands different from the identity,
p.x != q.x, ...) and state that the circuit does NOT become unsatisfiable when they are violated.  In a
contract-based reading every call site owes a proof of the callee's precondition.  Those proofs are
hand arguments (the comments at the call sites: accumulators of windowed_msm start from a random
point alpha, incomplete_add never returns the identity, add() branches on p = id / q = id / p.x = q.x
before calling assert_add, ...) and are NOT machine-checked: they are listed as trusted.  What IS
checked on every run: the set of functions documenting preconditions, and that each of them is
called only from the argued call sites (at most the argued number of times).  A call from anywhere
else has an unestablished precondition: the obligation is reported UNDECIDED, and promoted to a
VIOLATION only if the witness program finds a failing input on the real chip (MockProver, operand
classes P = Q, P = -Q, identity, shared scalars)."""
FILE = "circuits/src/ecc/foreign/ecc_chip.rs"
PROP = "C06"
LABEL = "foreign_ecc"
TRUSTED = [
    "c06_foreign_preconditions: the arguments that the REGISTERED call sites of incomplete_add / assert_double / assert_add / assert_slope / mul_by_u128 / windowed_msm / msm_by_le_bits / load_multi_select_table / multi_select establish the callee's documented preconditions are the hand arguments written as comments at those call sites; they are not machine-checked",
]

CALLSITES = {
    "preconditions": {
        "props": ["C06"],
        "clause": "`%s` (documents `# Preconditions`; violating them does not make the circuit unsatisfiable) is called only from the call sites for which the precondition is argued",
        "sites": {
            "incomplete_add": {"mul_by_u128": 1, "windowed_msm": 2},
            "assert_double": {"add": 1, "double": 1},
            "assert_add": {"add": 1, "incomplete_add": 1},
            "assert_slope": {"assert_double": 1, "assert_add": 2, "assert_slope": 1},
            "load_multi_select_table": {"k_out_of_n_points": 1, "windowed_msm": 1},
            "multi_select": {"windowed_msm": 1},
            "mul_by_u128": {"mul_by_constant": 1, "windowed_msm": 2},
            "windowed_msm": {"msm_by_bounded_scalars": 1, "msm_by_le_bits": 1},
            "msm_by_le_bits": {"mul_by_constant": 1},
        },
    },
}


# ---------------------------------------------------------------- identity bases in msm_by_bounded_scalars
# "In order to support the identity point for some bases, we select in-circuit based on the value of
# is_id and put a 0 scalar and an arbitrary non-id point (e.g. the generator) for the base when is_id
# equals 1."  Contract on the two selects of the loop body (statement-range slice, executed symbolically
# with select(c, x, y) = c*x + (1-c)*y field-wise): the term s*B of the sum is preserved --
#   is_id = 1:  the scalar becomes 0 (so the substituted base contributes the identity, like B);
#   is_id = 0:  scalar and base are unchanged.
import sympy as sp

from polyvc import Env, Opt, Struct, Tuple, Unsupported

TRUE = ("const", True)


def _sel(c, x, y):
    return sp.expand(c * x + (1 - c) * y)


def _msm_env():
    env = Env()

    def select_point(en, r, a):
        if len(a) != 4 or not is_point(a[2]) or not is_point(a[3]) or not isinstance(a[1], sp.Expr):
            raise Unsupported("ForeignEccChip::select on unexpected arguments")
        c, p, q = a[1], a[2], a[3]
        return Opt(Struct("Point", {k: _sel(c, p.fields[k], q.fields[k]) for k in ("x", "y", "is_id")}), TRUE)

    def select_scalar(en, r, a):
        if len(a) != 4 or not all(isinstance(v, sp.Expr) for v in a[1:]):
            raise Unsupported("scalar select on unexpected arguments")
        return Opt(_sel(a[1], a[2], a[3]), TRUE)
    env.calls[("Ok",)] = lambda en, a: Opt(a[0], TRUE)
    env.methods[("EccChip", "select")] = select_point
    env.methods[("ScalarChip", "select")] = select_scalar
    return env


def is_point(v):
    return isinstance(v, Struct) and v.ty == "Point"


def _msm_inputs():
    pt = lambda n, idv: Struct("Point", {"x": sp.Symbol(n + "_x"), "y": sp.Symbol(n + "_y"), "is_id": idv})
    return {"self": Struct("EccChip", {}), "scalar_chip": Struct("ScalarChip", {}), "layouter": Struct("Opaque", {"_name": "layouter"}),
            "b": pt("b", sp.Symbol("b_is_id")), "g": pt("g", sp.Integer(0)),      # the generator is not the identity
            "zero": sp.Integer(0), "s": Tuple([sp.Symbol("s"), sp.Symbol("s_bound")])}


def _msm_goals(env, out, loc):
    new_s, new_b = out.value.items
    b = loc["b"]
    goals = []
    if env.case.get("b_is_id") == 1:
        goals.append(("identity base: the scalar is zeroed", new_s))
        goals.append(("identity base: the substituted base is not flagged identity", new_b.fields["is_id"]))
    else:
        goals.append(("proper base: scalar unchanged", sp.expand(new_s - loc["s"].items[0])))
        for k in ("x", "y", "is_id"):
            goals.append(("proper base: base unchanged (%s)" % k, sp.expand(new_b.fields[k] - b.fields[k])))
    return goals


FUNCTIONS = {
    "msm_by_bounded_scalars.identity_bases": {
        "item": ["impl<F, C, B, S, N> EccInstructions<F, C> for ForeignEccChip<F, C, B, S, N>", "fn msm_by_bounded_scalars"],
        "capture": r"for \(s, b\) in scalars\.iter\(\)\.zip\(bases\.iter\(\)\) \{ (let new_b = .*?; let new_s = .*?;) non_id_bases\.push",
        "wrap": "%s Ok((new_s, new_b))",
        "env": _msm_env, "inputs": _msm_inputs,
        "hyps": lambda loc: [],
        "cases": [{"name": "is_id=1: ", "case": {"b_is_id": 1}, "hyps": lambda loc: [loc["b"].fields["is_id"] - 1]},
                  {"name": "is_id=0: ", "case": {"b_is_id": 0}, "hyps": lambda loc: [loc["b"].fields["is_id"]]}],
        "goals": _msm_goals,
        "props": ["C06"], "witness": "msm_by_bounded_scalars", "needs_witness": True,
        "clause": "the identity-base rewrite of msm_by_bounded_scalars preserves every term s*B of the sum: for an identity base the scalar becomes 0 and the substituted base is a proper point; for a proper base scalar and base are unchanged (select(c, x, y) = c*x + (1-c)*y field-wise)",
    },
}
