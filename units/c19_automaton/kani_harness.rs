// Kani harness for small structural kernels of circuits/src/parsing/automaton.rs (injected child
// module).  BOUNDED: automata with at most 3 states and at most 2 outgoing transitions per state;
// initial state, letters and targets are symbolic.  These are stand-ins, reported under `bounded`.
use super::*;

fn sym_letter() -> Letter {
    Letter { char: kani::any(), marker: kani::any() }
}

fn sym_automaton(nb_states: usize) -> RawAutomaton {
    let mut transitions: Vec<Vec<(Letter, usize)>> = Vec::new();
    let mut s = 0;
    while s < nb_states {
        let n: usize = kani::any();
        kani::assume(n <= 2);
        let mut succ = Vec::new();
        let mut i = 0;
        while i < n {
            let t: usize = kani::any();
            kani::assume(t < nb_states);
            succ.push((sym_letter(), t));
            i += 1;
        }
        transitions.push(succ);
        s += 1;
    }
    let initial_state: usize = kani::any();
    kani::assume(initial_state < nb_states);
    RawAutomaton {
        deterministic: false,
        complete: false,
        initial_state,
        final_states: FxHashSet::default(),
        transitions,
        markers: FxHashSet::default(),
    }
}

/// loop_on_initial: true <=> SOME transition of the automaton (from any state) targets the initial
/// state -- the doc's criterion for "the initial state lies on a cycle" when all states are reachable.
#[kani::proof]
#[kani::unwind(5)]
fn automaton_loop_on_initial_contract() {
    let nb: usize = kani::any();
    kani::assume(nb >= 1 && nb <= 3);
    let a = sym_automaton(nb);
    let got = a.loop_on_initial();
    let mut expect = false;
    let mut s = 0;
    while s < nb {
        let mut i = 0;
        while i < a.transitions[s].len() {
            if a.transitions[s][i].1 == a.initial_state {
                expect = true;
            }
            i += 1;
        }
        s += 1;
    }
    assert!(got == expect);
    kani::cover!(got && a.transitions[a.initial_state].is_empty()); // a cycle of length >= 2 exists in the domain
}

/// Letter::encode / decode are inverse on the documented domain, and encode stays below encoding_bound.
#[kani::proof]
#[kani::unwind(5)]
fn letter_encode_decode_roundtrip() {
    let markers: [usize; 3] = kani::any();
    kani::assume(markers[0] != markers[1] && markers[0] != markers[2] && markers[1] != markers[2]);
    let alphabet_size: usize = kani::any();
    kani::assume(alphabet_size >= 1 && alphabet_size <= ALPHABET_MAX_SIZE);
    let k: usize = kani::any();
    kani::assume(k < 3);
    let l = Letter { char: kani::any(), marker: markers[k] };
    kani::assume((l.char as usize) < alphabet_size);
    let e = l.encode(alphabet_size, &markers);
    assert!(e < Letter::encoding_bound(alphabet_size, &markers));
    let d = Letter::decode(e, alphabet_size, &markers);
    assert!(d == l);
}

