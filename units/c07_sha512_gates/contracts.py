"""Contracts for the custom gates of the SHA-512 chip (circuits/src/hash/sha512/sha512_chip.rs), for
PolyVC.  Same scheme as c07_sha256_gates with 64-bit words; rotation amounts from FIPS 180-4 sec. 4.1.3:
Sigma0 = ROTR28^ROTR34^ROTR39, Sigma1 = ROTR14^ROTR18^ROTR41, sigma0 = ROTR1^ROTR8^SHR7,
sigma1 = ROTR19^ROTR61^SHR6; even/odd outputs use the 13-13-13-13-12 layout."""
import sympy as sp

from sha_gate_spec import Word, gate as _gate, make_env, need  # noqa: F401

PROP = "C07"
LABEL = "sha512_gates"
FILE = "circuits/src/hash/sha512/sha512_chip.rs"
ITEM = ["impl<F: CircuitField> ComposableChip<F> for Sha512Chip<F>", "fn configure"]
TRUSTED = ["assumed contract: sha512/utils.rs expr_pow2_ip / expr_pow4_ip return sum 2^e_i*t_i / sum 4^e_i*t_i (generic loop, not in PolyVC's subset)"]
W = Word(64)
EOL = [13, 13, 13, 13, 12]
EO = (["s_evn_13a", "s_evn_13b", "s_evn_13c", "s_evn_13d", "s_evn_12"], ["s_odd_13a", "s_odd_13b", "s_odd_13c", "s_odd_13d", "s_odd_12"])
LA = [13, 12, 5, 6, 13, 13, 2]
NA = ["13a", "12", "05", "06", "13b", "13c", "02"]
LE = [13, 10, 13, 10, 4, 13, 1]
NE = ["13a", "10a", "13b", "10b", "04", "13c", "01"]
LW = [3, 13, 13, 13, 3, 11, 1, 1, 5, 1]
NW = ["03a", "13a", "13b", "13c", "03b", "11", "01a", "01b", "05", "01c"]


def gate(name, selector, spec_fn, clause):
    return _gate(ITEM, name, selector, spec_fn, clause)


def evn_odd(loc):
    return W.weighted(EOL, need(loc, EO[0]), 4) + 2 * W.weighted(EOL, need(loc, EO[1]), 4)


def spec_maj(loc):
    a, b, c = need(loc, ["sA", "sB", "sC"])
    return [(a + b + c) - evn_odd(loc)]


def spec_half_ch(loc):
    x, y, s1, s2, s = need(loc, ["sX", "sY", "summand_1", "summand_2", "sum"])
    return [(x + y) - evn_odd(loc), (s1 + s2) - s]


def spec_rot(lengths, names, ops):
    def f(loc):
        c = need(loc, ["s" + n for n in names])
        tot = 0
        for kind, r in ops:
            tot += W.rotr(lengths, c, r) if kind == "rotr" else W.shr(lengths, c, r)
        return [tot - evn_odd(loc)]
    return f


def spec_13x4_12(loc):
    p = need(loc, ["p13a", "p13b", "p13c", "p13d", "p12"])
    (o,) = need(loc, ["output"])
    return [W.weighted(EOL, p, 2) - o]


def spec_dec(lengths, names):
    def f(loc):
        plain, sprdd = need(loc, ["plain", "sprdd"])
        return [W.weighted(lengths, need(loc, ["p" + n for n in names]), 2) - plain,
                W.weighted(lengths, need(loc, ["s" + n for n in names]), 4) - sprdd]
    return f


def spec_msg_word(loc):
    w = need(loc, ["w" + n for n in NW])
    (plain,) = need(loc, ["plain"])
    one_bit = [w[i] * (w[i] - 1) for i, l in enumerate(LW) if l == 1]
    return [W.weighted(LW, w, 2) - plain] + one_bit


FUNCTIONS = {
    "Maj": gate("Maj(A, B, C)", "q_maj", spec_maj, "~A + ~B + ~C = Evn + 2 Odd in the 13x4-12 layout"),
    "half_Ch": gate("half Ch(E, F, G)", "q_half_ch", spec_half_ch, "~X + ~Y = Evn + 2 Odd; summand_1 + summand_2 = sum"),
    "Sigma_0": gate("Σ₀(A)", "q_Sigma_0", spec_rot(LA, NA, [("rotr", 28), ("rotr", 34), ("rotr", 39)]), "ROTR28, ROTR34, ROTR39 of limbs (13,12,5,6,13,13,2)"),
    "Sigma_1": gate("Σ₁(E)", "q_Sigma_1", spec_rot(LE, NE, [("rotr", 14), ("rotr", 18), ("rotr", 41)]), "ROTR14, ROTR18, ROTR41 of limbs (13,10,13,10,4,13,1)"),
    "sigma_0": gate("σ₀(W)", "q_sigma_0", spec_rot(LW, NW, [("shr", 7), ("rotr", 1), ("rotr", 8)]), "SHR7, ROTR1, ROTR8 of limbs (3,13,13,13,3,11,1,1,5,1)"),
    "sigma_1": gate("σ₁(W)", "q_sigma_1", spec_rot(LW, NW, [("shr", 6), ("rotr", 19), ("rotr", 61)]), "SHR6, ROTR19, ROTR61 of limbs (3,13,13,13,3,11,1,1,5,1)"),
    "dec_13x4_12": gate("13x4-12 decomposition", "q_13x4_12", spec_13x4_12, "output = plain recomposition in the 13-13-13-13-12 layout"),
    "dec_A": gate("13-12-5-6-13-13-2 decomposition", "q_13_12_5_6_13_13_2", spec_dec(LA, NA), "plain and spread recomposition of limbs (13,12,5,6,13,13,2)"),
    "dec_E": gate("13-10-13-10-4-13-1 decomposition", "q_13_10_13_10_4_13_1", spec_dec(LE, NE), "plain and spread recomposition of limbs (13,10,13,10,4,13,1)"),
    "dec_W": gate("3-13x3-3-11-1-1-5-1 decomposition", "q_3_13x3_3_11_1_1_5_1", spec_msg_word,
                  "plain recomposition of limbs (3,13,13,13,3,11,1,1,5,1) and a boolean constraint on EACH of the three 1-bit limbs"),
}


def spec_add_mod(loc):
    """sum of the summand cells = result + 2^64 * carry (one linear constraint; the range of carry and result is
    enforced by lookups elsewhere)"""
    names = [n for n in ("s0", "s1", "s2", "s3", "s4", "s5", "s6", "s7", "s8", "s9") if n in loc]
    if len(names) < 2:
        from polyvc import Unsupported
        raise Unsupported("add-mod gate no longer binds summand cells s0..")
    summands = need(loc, names)
    carry, result = need(loc, ["carry", "result"])
    return [sum(summands) - (result + carry * 2**64)]


FUNCTIONS["add_mod"] = gate("add mod 2^64", "q_add_mod_2_64", spec_add_mod, "sum of all summand cells = result + 2^64 carry")
