// Contracts on the weights with which FieldChip::assigned_from_le_bytes / assigned_from_le_bits
// recombine their input (sub-expression slices, see unit.json).  Loop-free over the full u32 domain of
// LOG2_BASE: complete proofs of the sliced expressions.
use super::*;

#[kani::proof]
fn bytes_chunk_weights_contract() {
    let log2_base: u32 = kani::any();
    kani::assume(log2_base >= 8); // bytes.chunks(0) would panic: no parameter set has LOG2_BASE < 8
    let k = bytes_per_chunk(log2_base);
    let chunk_len = bytes_chunk_len(log2_base, k);
    let exp = bytes_pow_exp(log2_base, k);
    assert!(chunk_len >= 1);
    assert!(8 * (chunk_len as u64) <= log2_base as u64); // a chunk value is below the limb base
    assert!(exp as u64 == 8 * (chunk_len as u64)); // chunk i is weighted by 256^(bytes before it)
    assert!(bytes_inner_weight() == 256);
}

#[kani::proof]
fn bits_chunk_weights_contract() {
    let log2_base: u32 = kani::any();
    kani::assume(log2_base >= 1);
    let chunk_len = bits_chunk_len(log2_base);
    let exp = bits_pow_exp(log2_base);
    assert!(chunk_len >= 1 && chunk_len as u64 <= log2_base as u64);
    assert!(exp as u64 == chunk_len as u64);
    let c: u128 = kani::any();
    kani::assume(c < (1u128 << 126));
    assert!(bits_inner_step(c) == 2 * c);
}
