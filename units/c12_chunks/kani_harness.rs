// Kani harness for the chunking arithmetic of proofs/src/utils/arithmetic.rs (parallelize,
// eval_polynomial).  The `let` initialisers are sliced out of the rayon/closure-heavy functions and
// wrapped as plain functions of their free names; the closures, the rayon scope and the slice splitting
// calls around them are dropped (their std contracts -- split_at_mut, chunks_exact_mut, chunks, zip --
// are what the assertions below are phrased against).
//
// Contract (property C12 "any number of worker threads", C17 "by index, not by arrival order"): for
// every length and every thread count the chunks handed to the workers are disjoint, cover the slice
// exactly, and each worker is told the true global index of its first element.
use super::*;

const MAX_LEN: usize = 1 << 40;
const MAX_THREADS: usize = 1 << 12;

#[kani::proof]
fn parallelize_chunks_partition_the_slice() {
    let total: usize = kani::any();
    let threads: usize = kani::any();
    kani::assume(total <= MAX_LEN && threads >= 1 && threads <= MAX_THREADS);
    let base = p_base(total, threads);
    let cut = p_cutoff(total, threads);
    let split = p_split(cut, base);
    // v.split_at_mut(split_pos) must not panic; v_hi = v[..split], v_lo = v[split..]
    assert!(split <= total);
    // v_hi.chunks_exact_mut(base + 1): exactly `cut` chunks, no remainder
    assert!(split == cut * (base + 1));
    // v_lo.chunks_exact_mut(base): exactly `threads - cut` chunks, no remainder (loop skipped iff base == 0)
    let lo_len = total - split;
    if base != 0 {
        assert!(lo_len % base == 0 && lo_len / base == threads - cut);
    } else {
        assert!(lo_len == 0);
    }
    // the hi loop is skipped iff cut == 0, and then v_hi is empty
    if cut == 0 {
        assert!(split == 0);
    }
    // offsets passed to the workers are the global start indices of their chunks
    let i: usize = kani::any();
    kani::assume(i < cut);
    assert!(p_off_hi(i, base) == i * (base + 1));
    assert!(p_off_hi(i, base) + (base + 1) <= split);
    let j: usize = kani::any();
    kani::assume(base != 0 && j < threads - cut);
    assert!(p_off_lo(split, j, base) == split + j * base);
    assert!(p_off_lo(split, j, base) + base <= total);
    kani::cover!(cut != 0 && base != 0);
}

#[kani::proof]
fn eval_polynomial_chunks_cover_every_coefficient() {
    let n: usize = kani::any();
    let threads: usize = kani::any();
    kani::assume(n <= MAX_LEN && threads >= 1 && threads <= MAX_THREADS);
    kani::assume(!(n * 2 < threads)); // the chunked branch
    let chunk = e_chunk(n, threads);
    assert!(chunk >= 1);
    // poly.chunks(chunk) yields ceil(n / chunk) chunks; zip with `threads` output cells must not drop any
    let nb_chunks = (n + chunk - 1) / chunk;
    assert!(nb_chunks <= threads);
    // exponent offset of chunk i is the index of its first coefficient
    let i: usize = kani::any();
    kani::assume(i < nb_chunks);
    assert!(e_start(i, chunk) == i * chunk && e_start(i, chunk) < n);
}
