"""Minimal Rust source scanner used by every back end.

It does NOT parse Rust.  It tokenises just enough (comments, string / raw-string /
byte-string / char literals vs. lifetimes) to match brackets reliably, splits a block
body into items, and finds an item by a path of header patterns.  Everything it returns
is a verbatim slice of the input text, with offsets, so callers can copy code
mechanically and insert text at exact positions.
"""
import re


class ScanError(Exception):
    pass


def mask(src):
    """Return a string of the same length where comment and literal *contents* are
    replaced by spaces (newlines kept), so bracket matching and regexes are safe."""
    out = list(src)
    i, n = 0, len(src)

    def blank(a, b):
        for k in range(a, b):
            if out[k] != "\n":
                out[k] = " "

    while i < n:
        c = src[i]
        if c == "/" and i + 1 < n and src[i + 1] == "/":
            j = src.find("\n", i)
            j = n if j < 0 else j
            blank(i, j)
            i = j
        elif c == "/" and i + 1 < n and src[i + 1] == "*":
            depth, j = 1, i + 2
            while j < n and depth:
                if src.startswith("/*", j):
                    depth += 1
                    j += 2
                elif src.startswith("*/", j):
                    depth -= 1
                    j += 2
                else:
                    j += 1
            blank(i, j)
            i = j
        elif c == '"' or (c in "br" and re.match(r'(b?r#*"|b")', src[i:i + 12]) and
                          (i == 0 or not (src[i - 1].isalnum() or src[i - 1] == "_"))):
            m = re.match(r'(b?)(r(#*))?"', src[i:])
            if m.group(2):  # raw string
                close = '"' + m.group(3)
                j = src.find(close, i + m.end())
                if j < 0:
                    raise ScanError("unterminated raw string")
                j += len(close)
            else:
                j = i + m.end()
                while j < n and src[j] != '"':
                    j += 2 if src[j] == "\\" else 1
                j += 1
            blank(i + m.end(), j - 1)
            i = j
        elif c == "'":
            # char literal or lifetime
            m = re.match(r"'(\\.[^']*|[^'\\])'", src[i:])
            if m:
                blank(i + 1, i + m.end() - 1)
                i += m.end()
            else:
                i += 1
        else:
            i += 1
    return "".join(out)


OPEN = {"(": ")", "[": "]", "{": "}"}
CLOSE = {v: k for k, v in OPEN.items()}


def match_close(m, i):
    """m masked text, m[i] an opening bracket; return index of matching closer."""
    stack = []
    n = len(m)
    while i < n:
        c = m[i]
        if c in OPEN:
            stack.append(c)
        elif c in CLOSE:
            if not stack or stack[-1] != CLOSE[c]:
                raise ScanError("unbalanced bracket at %d" % i)
            stack.pop()
            if not stack:
                return i
        i += 1
    raise ScanError("unterminated bracket")


BLOCK_KINDS = ("fn", "impl", "mod", "trait", "struct", "enum", "union", "macro_rules")
_KW = re.compile(
    r"\s*(?:pub\s*(?:\([^)]*\))?\s*)?(?:default\s+)?(?:const\s+(?=fn|unsafe|extern))?(?:async\s+)?"
    r"(?:unsafe\s+)?(?:extern\s*(?:\"[^\"]*\"|\s)\s*)?(\w+!?)")


class Item:
    __slots__ = ("start", "end", "kind", "header", "body_open", "body_close", "attr_end")

    def __repr__(self):
        return "Item(%s %r %d..%d)" % (self.kind, self.header[:40], self.start, self.end)


def split_items(src, m, lo, hi):
    """Split src[lo:hi] (a block interior or the whole file) into items."""
    items = []
    i = lo
    while i < hi:
        # skip whitespace
        while i < hi and m[i].isspace():
            i += 1
        if i >= hi:
            break
        start = i
        # attributes  #[...]  #![...]
        while True:
            mm = re.match(r"\s*#!?\[", m[i:hi])
            if not mm:
                break
            j = i + mm.end() - 1
            i = match_close(m, j) + 1
        while i < hi and m[i].isspace():
            i += 1
        attr_end = i
        if i >= hi:
            break
        km = _KW.match(src[i:hi])
        kind = km.group(1) if km else ""
        if kind.endswith("!"):
            kind = kind if kind == "macro_rules!" else "macro_call"
        kind = kind.rstrip("!")
        # scan to end of item
        j = i
        body_open = body_close = -1
        while j < hi:
            c = m[j]
            if c in "([":
                j = match_close(m, j) + 1
                continue
            if c == "{":
                k = match_close(m, j)
                if kind in BLOCK_KINDS or kind == "macro_call":
                    body_open, body_close = j, k
                    j = k + 1
                    # optional trailing ';' for macro calls / struct
                    mm = re.match(r"\s*;", m[j:hi])
                    if mm and kind in ("macro_call",):
                        j += mm.end()
                    break
                j = k + 1
                continue
            if c == ";":
                j += 1
                break
            j += 1
        it = Item()
        it.start, it.end, it.kind = start, j, kind
        it.attr_end = attr_end
        it.body_open, it.body_close = body_open, body_close
        hdr_end = body_open if body_open >= 0 else j
        it.header = " ".join(src[attr_end:hdr_end].split())
        items.append(it)
        i = j
    return items


def norm(s):
    return re.sub(r"\s+", " ", s.strip())


def find_item(src, path, m=None, lo=0, hi=None, nth=None):
    """path: list of header prefixes, e.g. ["impl Fr", "fn add"].  A segment matches an
    item whose header, after removing visibility / `const` / `unsafe` qualifiers and
    normalising whitespace, starts with the segment followed by a non-identifier char.
    The match must be unique unless the segment ends with '#k' (k-th match, 0-based)."""
    if m is None:
        m = mask(src)
    if hi is None:
        hi = len(src)
    seg = path[0]
    k = None
    mm = re.match(r"(.*)#(\d+)$", seg)
    if mm:
        seg, k = mm.group(1), int(mm.group(2))
    seg = norm(seg)
    cands = []
    for it in split_items(src, m, lo, hi):
        h = strip_quals(it.header)
        if h.startswith(seg) and (len(h) == len(seg) or not (h[len(seg)].isalnum() or h[len(seg)] == "_")):
            cands.append(it)
    if not cands:
        raise ScanError("item not found: %r" % path[0])
    if k is None and len(cands) > 1:
        if len(path) > 1:
            # several blocks with the same header (e.g. two `impl T {}`): take the one in which the
            # rest of the path resolves, if exactly one does
            hits = []
            for c in cands:
                if c.body_open < 0:
                    continue
                try:
                    hits.append(find_item(src, path[1:], m, c.body_open + 1, c.body_close))
                except ScanError:
                    pass
            if len(hits) == 1:
                return hits[0]
        raise ScanError("ambiguous item %r (%d matches)" % (path[0], len(cands)))
    it = cands[k or 0]
    if len(path) == 1:
        return it
    if it.body_open < 0:
        raise ScanError("item %r has no body" % path[0])
    return find_item(src, path[1:], m, it.body_open + 1, it.body_close)


_QUAL = re.compile(r"^(?:pub\s*(?:\([^)]*\))?\s*|default\s+|const\s+(?=fn|unsafe|extern)|async\s+|unsafe\s+(?=fn|impl)|extern\s*\"[^\"]*\"\s*)+")


def strip_quals(h):
    return _QUAL.sub("", h)


def split_statements(src, m, lo, hi):
    """Split a function body interior into statements: ';'-terminated at depth 0, or a
    trailing expression.  Block-like statements (if/while/for/loop/match/unsafe/{) that
    end with '}' and are not followed by an operator also end a statement.  Returns list
    of (start, end)."""
    out = []
    i = lo
    while i < hi:
        while i < hi and m[i].isspace():
            i += 1
        if i >= hi:
            break
        start = i
        j = i
        blocklike = re.match(r"((if|while|for|loop|match|unsafe)\b|\{)", m[i:hi]) is not None
        while j < hi:
            c = m[j]
            if c in "([":
                j = match_close(m, j) + 1
                continue
            if c == "{":
                k = match_close(m, j)
                j = k + 1
                if blocklike:
                    rest = re.match(r"\s*(else\b|[.?]|;)", m[j:hi])
                    if rest is None:
                        break
                    if rest.group(1) == ";":
                        j += rest.end()
                        break
                continue
            if c == ";":
                j += 1
                break
            j += 1
        out.append((start, j))
        i = j
    return out


def slice_let(src, it, name, nth=0, count=None):
    """Initialiser expression text of the nth `let <name> = <expr>;` inside item `it` (whitespace
    collapsed).  Raises ScanError when the anchor is lost."""
    body = src[it.body_open + 1:it.body_close]
    mbody = mask(body)
    mms = list(re.finditer(r"\blet\s+%s\s*(?::[^=;]+)?=\s*" % re.escape(name), mbody))
    if count is not None and len(mms) != count:
        raise ScanError("expected %d `let %s`, found %d" % (count, name, len(mms)))
    if len(mms) <= nth:
        raise ScanError("`let %s` #%d not found" % (name, nth))
    mm = mms[nth]
    j = mm.end()
    depth = 0
    while j < len(mbody) and not (mbody[j] == ";" and depth == 0):
        depth += mbody[j] in "([{"
        depth -= mbody[j] in ")]}"
        j += 1
    return squash(body[mm.end():j], mbody[mm.end():j])


def slice_field(src, it, name, nth=0, count=None):
    """Initialiser expression text of the nth `<name>: <expr>` field of a struct literal inside item
    `it` (whitespace collapsed).  The expression ends at the `,` or closing brace of the literal."""
    body = src[it.body_open + 1:it.body_close]
    mbody = mask(body)
    mms = [m for m in re.finditer(r"(?<![\w:])%s\s*:(?!:)\s*" % re.escape(name), mbody)]
    if count is not None and len(mms) != count:
        raise ScanError("expected %d `%s:` fields, found %d" % (count, name, len(mms)))
    if len(mms) <= nth:
        raise ScanError("field `%s:` #%d not found" % (name, nth))
    mm = mms[nth]
    j = mm.end()
    depth = 0
    while j < len(mbody):
        ch = mbody[j]
        if depth == 0 and ch in ",}":
            break
        depth += ch in "([{"
        depth -= ch in ")]}"
        j += 1
    return squash(body[mm.end():j], mbody[mm.end():j])


def squash(text, masked):
    """text with comments removed (located through the masked copy) and whitespace collapsed"""
    out = []
    i = 0
    n = len(text)
    while i < n:
        if text.startswith("//", i) and masked[i:i + 2] == "  ":
            j = text.find("\n", i)
            i = n if j < 0 else j
            continue
        if text.startswith("/*", i) and masked[i:i + 2] == "  ":
            j = text.find("*/", i)
            i = n if j < 0 else j + 2
            continue
        out.append(text[i])
        i += 1
    return re.sub(r"\s+", " ", "".join(out).strip()).replace(" .", ".")


def fn_body_text(src, it):
    """body of a fn item, comments removed, whitespace collapsed"""
    body = src[it.body_open + 1:it.body_close]
    return squash(body, mask(body))
