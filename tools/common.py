"""Shared plumbing: paths, scratch copies, obligation records, evidence, verdicts."""
import json
import os
import shutil
import subprocess
import sys
import tempfile
import time

VERIF = os.path.dirname(os.path.dirname(os.path.abspath(__file__)))
REPO = os.environ.get("VERIF_REPO", "/repo")
UNITS = os.path.join(VERIF, "units")
EVIDENCE = os.path.join(VERIF, "evidence")
REPLAYS = os.path.join(VERIF, "replays")
NCPU = os.cpu_count() or 4

OFFLINE_ENV = {"CARGO_NET_OFFLINE": "true", "GOPROXY": "off", "PIP_NO_INDEX": "1"}

# status values of an obligation
DISCHARGED, FAILED, UNDECIDED, SKIPPED = "discharged", "failed", "undecided", "skipped"


class Undecided(Exception):
    """Raised when a check cannot reach a verdict (lost anchor, unsupported construct,
    tool crash, resource limit).  Never reported as a violation."""


class Obligation:
    def __init__(self, name, props, backend, fn, clause, klass="complete", bound=None):
        self.name = name          # <prop>.<unit>.<fn>.<clause>
        self.props = props        # property ids it serves
        self.backend = backend    # verus | kani | polyvc
        self.fn = fn              # file::item under contract
        self.clause = clause      # human-readable contract clause
        self.klass = klass        # complete | bounded
        self.bound = bound
        self.status = UNDECIDED
        self.seconds = 0.0
        self.detail = ""          # verifier output on failure / reason when undecided
        self.counterexample = None
        self.vcs = 0              # low-level VCs / CBMC properties / SMT queries behind it

    def to_json(self):
        d = {"name": self.name, "backend": self.backend, "fn": self.fn, "clause": self.clause,
             "class": self.klass, "status": self.status, "seconds": round(self.seconds, 3),
             "vcs": self.vcs}
        if self.bound:
            d["bound"] = self.bound
        if self.detail and self.status != DISCHARGED:
            d["detail"] = self.detail[-4000:]
        return d


def log(*a):
    print(*a, file=sys.stderr, flush=True)


def run(cmd, cwd=None, env=None, timeout=None, stdin=None):
    e = dict(os.environ)
    e.update(OFFLINE_ENV)
    if env:
        e.update(env)
    t0 = time.time()
    try:
        p = subprocess.run(cmd, cwd=cwd, env=e, stdout=subprocess.PIPE, stderr=subprocess.STDOUT,
                           timeout=timeout, input=stdin, text=True, errors="replace")
        return p.returncode, p.stdout, time.time() - t0
    except subprocess.TimeoutExpired as ex:
        out = ex.stdout or ""
        if isinstance(out, bytes):
            out = out.decode("utf-8", "replace")
        return -9, out + "\n[timeout after %ss]" % timeout, time.time() - t0


class Scratch:
    """A throw-away copy of /repo's current working tree (no target/, no .git), outside
    /repo and /verif.  Removed on close together with its build output."""

    def __init__(self, tag):
        base = os.environ.get("VERIF_SCRATCH_BASE") or tempfile.gettempdir()
        self.root = tempfile.mkdtemp(prefix="mzk-verif-%s-" % tag, dir=base)
        self.src = os.path.join(self.root, "src")
        self.target = os.path.join(self.root, "target")
        rc, out, _ = run(["rsync", "-a", "--exclude", "/target", "--exclude", ".git", REPO + "/", self.src + "/"])
        if rc != 0:
            raise Undecided("rsync of %s failed: %s" % (REPO, out[-500:]))

    def path(self, rel):
        return os.path.join(self.src, rel)

    def read(self, rel):
        with open(self.path(rel)) as f:
            return f.read()

    def write(self, rel, text):
        with open(self.path(rel), "w") as f:
            f.write(text)

    def close(self):
        if os.environ.get("VERIF_KEEP_SCRATCH"):
            log("keeping scratch", self.root)
            return
        shutil.rmtree(self.root, ignore_errors=True)

    def __enter__(self):
        return self

    def __exit__(self, *a):
        self.close()


def repo_read(rel):
    with open(os.path.join(REPO, rel)) as f:
        return f.read()


def load_json(path):
    with open(path) as f:
        return json.load(f)


def known_findings():
    p = os.path.join(VERIF, "known_findings.json")
    if not os.path.exists(p):
        return {"findings": [], "fixed": []}
    return load_json(p)


def repo_head():
    rc, out, _ = run(["git", "-C", REPO, "rev-parse", "HEAD"])
    head = out.strip() if rc == 0 else "unknown"
    rc, out, _ = run(["git", "-C", REPO, "status", "--porcelain", "--untracked-files=no"])
    dirty = bool(out.strip()) if rc == 0 else None
    return head, dirty
