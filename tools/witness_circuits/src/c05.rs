//! mode c05_mod_exp: the REAL BigUintGadget::mod_exp under MockProver: for small x, n, m the honest prover
//! must be accepted with the result x^n % m (and only with it).
use midnight_circuits::{
    biguint::BigUintGadget,
    field::{decomposition::chip::P2RDecompositionChip, NativeChip, NativeGadget},
    instructions::AssertionInstructions,
    testing_utils::FromScratch,
};
use midnight_proofs::{
    circuit::{Layouter, SimpleFloorPlanner, Value},
    dev::MockProver,
    plonk::{Circuit, ConstraintSystem, Error},
};
use num_bigint::BigUint;

type F = midnight_curves::Fq;
type NG = NativeGadget<F, P2RDecompositionChip<F>, NativeChip<F>>;
type Big = BigUintGadget<F, NG>;

#[derive(Clone, Debug)]
struct C {
    x: u64,
    n: u64,
    m: u64,
    claimed: u64,
}

impl Circuit<F> for C {
    type Config = <Big as FromScratch<F>>::Config;
    type FloorPlanner = SimpleFloorPlanner;
    type Params = ();
    fn without_witnesses(&self) -> Self {
        unreachable!()
    }
    fn configure(meta: &mut ConstraintSystem<F>) -> Self::Config {
        let a = meta.instance_column();
        let b = meta.instance_column();
        Big::configure_from_scratch(meta, &[a, b])
    }
    fn synthesize(&self, config: Self::Config, mut layouter: impl Layouter<F>) -> Result<(), Error> {
        let g = Big::new_from_scratch(&config);
        let x = g.assign_biguint(&mut layouter, Value::known(BigUint::from(self.x)), 16)?;
        let m = g.assign_biguint(&mut layouter, Value::known(BigUint::from(self.m)), 16)?;
        let r = g.mod_exp(&mut layouter, &x, self.n, &m)?;
        g.assert_equal_to_fixed(&mut layouter, &r, BigUint::from(self.claimed))?;
        g.load_from_scratch(&mut layouter)
    }
}

fn accepted(c: &C) -> bool {
    std::panic::catch_unwind(std::panic::AssertUnwindSafe(|| match MockProver::run(12, c, vec![vec![], vec![]]) {
        Ok(p) => p.verify().is_ok(),
        Err(_) => false,
    }))
    .unwrap_or(false)
}

pub fn run(report: &dyn Fn(&str, String, &str, &str)) {
    std::panic::set_hook(Box::new(|_| {}));
    for (x, m) in [(7u64, 5u64), (3, 5), (12, 4), (1000, 7)] {
        for n in [1u64, 2, 3, 4, 5, 8] {
            let want = BigUint::from(x).modpow(&BigUint::from(n), &BigUint::from(m));
            let want = want.to_u64_digits().first().copied().unwrap_or(0);
            if !accepted(&C { x, n, m, claimed: want }) {
                report("mod_exp", format!("BigUintGadget::mod_exp(x = {x}, n = {n}, m = {m}): honest prover, claimed result x^n % m = {want}"), "rejected", "accepted");
            }
            let wrong = (want + 1) % m.max(2);
            if wrong != want && accepted(&C { x, n, m, claimed: wrong }) {
                report("mod_exp", format!("BigUintGadget::mod_exp(x = {x}, n = {n}, m = {m}): wrong result {wrong} claimed"), "accepted", "rejected");
            }
        }
    }
}

// ---------------------------------------------------------------------------------------------------------
// mode c05_field_mul: the REAL FieldChip (secp256k1 scalar field emulated over the BLS12-381 scalar field) under
// MockProver: mul(x, y, Some(k)) must be k*x*y also when x or y is the assigned-fixed 1 (shortcut branches).
pub mod field_mul {
    use group::Group;
    use midnight_circuits::{
        field::{
            decomposition::chip::P2RDecompositionChip,
            foreign::{params::MultiEmulationParams, FieldChip},
            NativeChip, NativeGadget,
        },
        instructions::{ArithInstructions, AssertionInstructions, AssignmentInstructions},
        testing_utils::FromScratch,
    };
    use midnight_curves::{k256::K256, Fq as BlsScalar};
    use midnight_proofs::{
        circuit::{Layouter, SimpleFloorPlanner, Value},
        dev::MockProver,
        plonk::{Circuit, ConstraintSystem, Error},
    };

    type Native = NativeGadget<BlsScalar, P2RDecompositionChip<BlsScalar>, NativeChip<BlsScalar>>;
    type K = <K256 as Group>::Scalar;
    type Chip = FieldChip<BlsScalar, K, MultiEmulationParams, Native>;

    #[derive(Clone, Debug)]
    struct C {
        one_on_left: bool,
        fixed: K,      // the operand assigned with assign_fixed (1, 0 or a generic constant)
        y: K,
        k: Option<K>,
        claimed: K,
    }

    impl Circuit<BlsScalar> for C {
        type Config = <Chip as FromScratch<BlsScalar>>::Config;
        type FloorPlanner = SimpleFloorPlanner;
        type Params = ();
        fn without_witnesses(&self) -> Self {
            unreachable!()
        }
        fn configure(meta: &mut ConstraintSystem<BlsScalar>) -> Self::Config {
            let a = meta.instance_column();
            let b = meta.instance_column();
            Chip::configure_from_scratch(meta, &[a, b])
        }
        fn synthesize(&self, config: Self::Config, mut layouter: impl Layouter<BlsScalar>) -> Result<(), Error> {
            let chip = Chip::new_from_scratch(&config);
            let f = chip.assign_fixed(&mut layouter, self.fixed)?;
            let y = chip.assign(&mut layouter, Value::known(self.y))?;
            let r = if self.one_on_left { chip.mul(&mut layouter, &f, &y, self.k)? } else { chip.mul(&mut layouter, &y, &f, self.k)? };
            chip.assert_equal_to_fixed(&mut layouter, &r, self.claimed)?;
            chip.load_from_scratch(&mut layouter)
        }
    }

    fn accepted(c: &C) -> bool {
        std::panic::catch_unwind(std::panic::AssertUnwindSafe(|| match MockProver::run(14, c, vec![vec![], vec![]]) {
            Ok(p) => p.verify().is_ok(),
            Err(_) => false,
        }))
        .unwrap_or(false)
    }

    pub fn run(report: &dyn Fn(&str, String, &str, &str)) {
        std::panic::set_hook(Box::new(|_| {}));
        let y = K::from(1234567u64);
        let k3 = K::from(3u64);
        for (fname, fixed) in [("1", K::ONE), ("0", K::ZERO), ("5", K::from(5u64))] {
            for left in [true, false] {
                for (kname, k) in [("None", None), ("Some(3)", Some(k3))] {
                    let want = fixed * y * k.unwrap_or(K::ONE);
                    let side = if left { "mul(fixed, y, k)" } else { "mul(y, fixed, k)" };
                    if !accepted(&C { one_on_left: left, fixed, y, k, claimed: want }) {
                        report("field_mul", format!("FieldChip::{side} with fixed = assign_fixed({fname}), k = {kname}: honest prover, claimed k*x*y"), "rejected", "accepted");
                    }
                }
            }
        }
    }
}
