//! mode c07_poseidon_varlen: the REAL VarLenPoseidonGadget on vectors of every length 0..=M whose unused
//! cells hold a non-zero filler; the in-circuit digest must equal the off-circuit Poseidon hash of the
//! payload whatever the filler is.
use ff::Field;
use midnight_circuits::{
    field::{decomposition::chip::P2RDecompositionChip, AssignedNative, NativeChip, NativeGadget},
    hash::poseidon::VarLenPoseidonGadget,
    instructions::{
        hash::{HashCPU, VarHashInstructions},
        AssertionInstructions, VectorInstructions,
    },
    testing_utils::FromScratch,
    vec::{vector_gadget::VectorGadget, AssignedVector},
};
use midnight_proofs::{
    circuit::{Layouter, SimpleFloorPlanner, Value},
    dev::MockProver,
    plonk::{Circuit, ConstraintSystem, Error},
};

type F = midnight_curves::Fq;
type NG = NativeGadget<F, P2RDecompositionChip<F>, NativeChip<F>>;
const M: usize = 8;
const RATE: usize = 2; // hash::poseidon::constants::RATE (crate-private)

#[derive(Clone, Debug)]
struct Probe {
    input: Vec<F>,
    filler: F,
}

impl Circuit<F> for Probe {
    type Config = (<VarLenPoseidonGadget<F> as FromScratch<F>>::Config, <VectorGadget<F> as FromScratch<F>>::Config);
    type FloorPlanner = SimpleFloorPlanner;
    type Params = ();
    fn without_witnesses(&self) -> Self {
        unreachable!()
    }
    fn configure(meta: &mut ConstraintSystem<F>) -> Self::Config {
        let a = meta.instance_column();
        let b = meta.instance_column();
        (VarLenPoseidonGadget::configure_from_scratch(meta, &[a, b]), VectorGadget::configure_from_scratch(meta, &[a, b]))
    }
    fn synthesize(&self, config: Self::Config, mut layouter: impl Layouter<F>) -> Result<(), Error> {
        let chip = VarLenPoseidonGadget::<F>::new_from_scratch(&config.0);
        let ng = NG::new_from_scratch(&config.1);
        let vg = VectorGadget::new(&ng);
        let v: AssignedVector<F, AssignedNative<F>, M, RATE> =
            vg.assign_with_filler(&mut layouter, Value::known(self.input.clone()), Some(self.filler))?;
        let out = chip.varhash(&mut layouter, &v)?;
        let expected = <VarLenPoseidonGadget<F> as HashCPU<F, F>>::hash(&self.input);
        ng.assert_equal_to_fixed(&mut layouter, &out, expected)?;
        chip.load_from_scratch(&mut layouter)?;
        ng.load_from_scratch(&mut layouter)
    }
}

pub fn run(report: &dyn Fn(&str, String, &str, &str)) {
    std::panic::set_hook(Box::new(|_| {}));
    for len in 0..=M {
        for filler in [F::ZERO, F::from(7)] {
            let input: Vec<F> = (0..len).map(|i| F::from(100 + i as u64)).collect();
            let ok = std::panic::catch_unwind(std::panic::AssertUnwindSafe(|| {
                match MockProver::run(12, &Probe { input: input.clone(), filler }, vec![vec![], vec![]]) {
                    Ok(p) => p.verify().is_ok(),
                    Err(_) => false,
                }
            }))
            .unwrap_or(false);
            if !ok {
                report(
                    "varlen_filler",
                    format!("VarLenPoseidonGadget::varhash on a vector of length {len} (MAX_LEN = {M}) assigned with filler {}: in-circuit digest vs off-circuit Poseidon hash of the payload", if filler == F::ZERO { "0" } else { "7" }),
                    "different (honest prover rejected)",
                    "equal",
                );
            }
        }
    }
}
