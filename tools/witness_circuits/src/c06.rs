//! mode c06_foreign: drives the REAL ForeignEccChip (secp256k1 emulated over the BLS12-381 scalar
//! field) through MockProver on operand classes that random tests do not hit (equal, opposite and
//! identity operands; one assigned scalar shared by several bases) and compares with the group law:
//! an honest prover with the correct result must be accepted, a wrong result rejected.
use ff::Field;
use group::Group;
use midnight_circuits::{
    ecc::foreign::ForeignEccChip,
    field::{
        decomposition::chip::P2RDecompositionChip,
        foreign::{params::MultiEmulationParams, FieldChip},
        NativeChip, NativeGadget,
    },
    instructions::{AssertionInstructions, AssignmentInstructions, EccInstructions},
    testing_utils::FromScratch,
    types::{AssignedField, AssignedForeignPoint},
};
use midnight_curves::{k256::K256, Fq as BlsScalar};
use midnight_proofs::{
    circuit::{Layouter, SimpleFloorPlanner, Value},
    dev::MockProver,
    plonk::{Circuit, ConstraintSystem, Error},
};
use rand::SeedableRng;
use rand_chacha::ChaCha8Rng;

type Native = NativeGadget<BlsScalar, P2RDecompositionChip<BlsScalar>, NativeChip<BlsScalar>>;
type SecpScalar = <K256 as Group>::Scalar;
type ScalarChip = FieldChip<BlsScalar, SecpScalar, MultiEmulationParams, Native>;
type SecpChip = ForeignEccChip<BlsScalar, K256, MultiEmulationParams, ScalarChip, Native>;
type SecpPoint = AssignedForeignPoint<BlsScalar, K256, MultiEmulationParams>;
type SecpAssignedScalar = AssignedField<BlsScalar, SecpScalar, MultiEmulationParams>;

#[derive(Clone, Copy, Debug, PartialEq)]
enum Op {
    Add,
    MsmShared, // msm([s, s], [P, Q]) with ONE assigned scalar
    MsmShared3, // msm([s, s, s], [P, Q, R])
}

#[derive(Clone, Debug)]
struct C {
    op: Op,
    s: SecpScalar,
    pts: Vec<K256>,
    claimed: K256,
}

impl Circuit<BlsScalar> for C {
    type Config = <SecpChip as FromScratch<BlsScalar>>::Config;
    type FloorPlanner = SimpleFloorPlanner;
    type Params = ();

    fn without_witnesses(&self) -> Self {
        unreachable!()
    }

    fn configure(meta: &mut ConstraintSystem<BlsScalar>) -> Self::Config {
        let committed_instance_column = meta.instance_column();
        let instance_column = meta.instance_column();
        SecpChip::configure_from_scratch(meta, &[committed_instance_column, instance_column])
    }

    fn synthesize(&self, config: Self::Config, mut layouter: impl Layouter<BlsScalar>) -> Result<(), Error> {
        let chip = SecpChip::new_from_scratch(&config);
        let mut pts: Vec<SecpPoint> = vec![];
        for p in &self.pts {
            pts.push(chip.assign(&mut layouter, Value::known(*p))?);
        }
        let res = match self.op {
            Op::Add => chip.add(&mut layouter, &pts[0], &pts[1])?,
            Op::MsmShared | Op::MsmShared3 => {
                let s: SecpAssignedScalar = chip.scalar_field_chip().assign(&mut layouter, Value::known(self.s))?;
                let scalars = vec![s; pts.len()];
                chip.msm(&mut layouter, &scalars, &pts)?
            }
        };
        chip.assert_equal_to_fixed(&mut layouter, &res, self.claimed)?;
        chip.load_from_scratch(&mut layouter)
    }
}

/// false also when witness generation panics (an honest prover that cannot even synthesize is rejected)
fn accepted(c: &C) -> bool {
    std::panic::catch_unwind(std::panic::AssertUnwindSafe(|| match MockProver::run(16, c, vec![vec![], vec![]]) {
        Ok(prover) => prover.verify().is_ok(),
        Err(_) => false,
    }))
    .unwrap_or(false)
}

pub fn run(report: &dyn Fn(&str, String, &str, &str)) {
    std::panic::set_hook(Box::new(|_| {}));
    let mut rng = ChaCha8Rng::seed_from_u64(0xc06);
    let s = SecpScalar::random(&mut rng);
    let p = K256::random(&mut rng);
    let t = K256::random(&mut rng);
    let id = K256::identity();
    let classes: Vec<(&str, K256, K256)> = vec![("Q generic", p, t), ("Q = P", p, p), ("Q = -P", p, -p), ("Q = id", p, id), ("P = id", id, p), ("P = Q = id", id, id)];
    for (name, a, b) in &classes {
        // complete addition
        let c = C { op: Op::Add, s, pts: vec![*a, *b], claimed: *a + *b };
        if !accepted(&c) {
            report("add", format!("ForeignEccChip::add(P, Q), {name}: honest prover, correct result P + Q"), "rejected", "accepted");
        }
        let c = C { op: Op::Add, s, pts: vec![*a, *b], claimed: *a + *b + t };
        if accepted(&c) {
            report("add", format!("ForeignEccChip::add(P, Q), {name}: wrong result P + Q + T"), "accepted", "rejected");
        }
        // one assigned scalar shared by two bases
        let c = C { op: Op::MsmShared, s, pts: vec![*a, *b], claimed: *a * s + *b * s };
        if !accepted(&c) {
            for k in ["msm_by_bounded_scalars", "msm"] {
                report(k, format!("ForeignEccChip::msm([s, s], [P, Q]) with one assigned scalar, {name}: honest prover, correct result s*P + s*Q"), "rejected", "accepted");
            }
        }
    }
    // three bases with P1 + P2 = -P3 under one scalar
    let c = C { op: Op::MsmShared3, s, pts: vec![p, t, -(p + t)], claimed: id };
    if !accepted(&c) {
        for k in ["msm_by_bounded_scalars", "msm"] {
            report(k, "ForeignEccChip::msm([s, s, s], [P, T, -(P+T)]) with one assigned scalar: honest prover, result identity".into(), "rejected", "accepted");
        }
    }
}
