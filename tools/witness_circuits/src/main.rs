//! Witness search on the REAL midnight-circuits crate (built from the current working tree): looks for a
//! concrete failing input when a contract of a circuits-side unit fails.  Not a deciding step.
//!
//! mode c19_regex: compiles unmarked regular expressions with the public combinators
//! (`Regex::to_automaton`) and compares the automaton with a Brzozowski-derivative matcher of a
//! reference AST on every word of length <= 4 over a 4-byte sample alphabet.
use std::{env, panic};

mod c05;
mod c06;
mod c07;

use midnight_circuits::parsing::regex::{Regex, RegexInstructions};

struct Rng(u64);
impl Rng {
    fn next(&mut self) -> u64 {
        self.0 ^= self.0 << 13;
        self.0 ^= self.0 >> 7;
        self.0 ^= self.0 << 17;
        self.0
    }
    fn below(&mut self, n: usize) -> usize {
        (self.next() % n as u64) as usize
    }
}

#[derive(Clone, Debug)]
enum E {
    Bytes(Vec<u8>),
    Eps,
    Any,
    Cat(Vec<E>),
    Union(Vec<E>),
    Inter(Vec<E>),
    Neg(Box<E>),
    Plus(Box<E>),
    Star(Box<E>),
    Opt(Box<E>),
    Minus(Box<E>, Box<E>),
    Repeat(Box<E>, usize),
    AtMost(Box<E>, usize),
}
use E::*;

fn to_regex(e: &E) -> Regex {
    match e {
        Bytes(s) => Regex::byte_from(s.iter().copied()),
        Eps => Regex::epsilon(),
        Any => Regex::any(),
        Cat(l) => Regex::cat(l.iter().map(to_regex)),
        Union(l) => Regex::union(l.iter().map(to_regex)),
        Inter(l) => Regex::inter(l.iter().map(to_regex)),
        Neg(a) => to_regex(a).neg(),
        Plus(a) => to_regex(a).non_empty_list(),
        Star(a) => to_regex(a).list(),
        Opt(a) => to_regex(a).optional(),
        Minus(a, b) => to_regex(a).minus(to_regex(b)),
        Repeat(a, n) => to_regex(a).repeat(*n),
        AtMost(a, n) => to_regex(a).repeat_at_most(*n),
    }
}

fn nullable(e: &E) -> bool {
    match e {
        Bytes(_) => false,
        Eps | Any | Star(_) | Opt(_) => true,
        Cat(l) | Inter(l) => l.iter().all(nullable),
        Union(l) => l.iter().any(nullable),
        Neg(a) => !nullable(a),
        Plus(a) => nullable(a),
        Minus(a, b) => nullable(a) && !nullable(b),
        Repeat(a, n) => *n == 0 || nullable(a),
        AtMost(_, _) => true,
    }
}

fn deriv(e: &E, c: u8) -> E {
    match e {
        Bytes(s) => {
            if s.contains(&c) {
                Eps
            } else {
                Union(vec![])
            }
        }
        Eps => Union(vec![]),
        Any => Any,
        Cat(l) => {
            if l.is_empty() {
                return Union(vec![]);
            }
            let mut first = vec![deriv(&l[0], c)];
            first.extend(l[1..].iter().cloned());
            if nullable(&l[0]) {
                Union(vec![Cat(first), deriv(&Cat(l[1..].to_vec()), c)])
            } else {
                Cat(first)
            }
        }
        Union(l) => Union(l.iter().map(|a| deriv(a, c)).collect()),
        Inter(l) => Inter(l.iter().map(|a| deriv(a, c)).collect()),
        Neg(a) => Neg(Box::new(deriv(a, c))),
        Plus(a) | Star(a) => Cat(vec![deriv(a, c), Star(a.clone())]),
        Opt(a) => deriv(a, c),
        Minus(a, b) => Inter(vec![deriv(a, c), Neg(Box::new(deriv(b, c)))]),
        Repeat(a, n) => deriv(&Cat(vec![(**a).clone(); *n]), c),
        AtMost(a, n) => Union((0..=*n).map(|i| deriv(&Cat(vec![(**a).clone(); i]), c)).collect()),
    }
}

fn matches(e: &E, w: &[u8]) -> bool {
    let mut cur = e.clone();
    for &c in w {
        cur = deriv(&cur, c);
    }
    nullable(&cur)
}

const SAMPLE: [u8; 4] = [b'a', b'b', b'#', 0xff];

fn words(max_len: usize) -> Vec<Vec<u8>> {
    let mut res = vec![vec![]];
    let mut layer: Vec<Vec<u8>> = vec![vec![]];
    for _ in 0..max_len {
        let mut next = vec![];
        for w in &layer {
            for &b in &SAMPLE {
                let mut w2 = w.clone();
                w2.push(b);
                next.push(w2);
            }
        }
        res.extend(next.iter().cloned());
        layer = next;
    }
    res
}

fn esc(s: &str) -> String {
    s.replace('\\', "\\\\").replace('"', "\\\"")
}

fn report(key: &str, case: String, got: &str, expected: &str) {
    println!("{{\"key\": \"{}\", \"case\": \"{}\", \"got\": \"{}\", \"expected\": \"{}\"}}", key, esc(&case), got, expected);
}

fn check_expr(keys: &[&str], e: &E, ws: &[Vec<u8>]) -> bool {
    let ee = e.clone();
    let aut = match panic::catch_unwind(move || to_regex(&ee).to_automaton()) {
        Ok(a) => a,
        Err(_) => {
            for k in keys {
                report(k, format!("expr = {:?}", e), "to_automaton panicked", "an automaton");
            }
            return false;
        }
    };
    for w in ws {
        let mut state = aut.initial_state;
        let mut stuck = false;
        let mut marked = false;
        for &b in w {
            match aut.transitions.get(&(state, b)) {
                Some(&(next, marker)) => {
                    state = next;
                    marked |= marker != 0;
                }
                None => {
                    stuck = true;
                    break;
                }
            }
        }
        let got = !stuck && aut.final_states.contains(&state);
        let want = matches(e, w);
        if got != want || (got && marked) {
            for k in keys {
                report(
                    k,
                    format!("expr = {:?}; word = {:?}", e, w),
                    if got { "accepted" } else { "rejected" },
                    if want { "accepted (unmarked)" } else { "rejected" },
                );
            }
            return false;
        }
    }
    true
}

fn b(s: &[u8]) -> E {
    Bytes(s.to_vec())
}
fn bx(e: E) -> Box<E> {
    Box::new(e)
}

/// Expressions tied to the contracts of units/c19_complete_flag (key = the obligation they replay).
fn fixed_family() -> Vec<(Vec<&'static str>, E)> {
    let a = || b(b"a");
    let bb = || b(b"b");
    let h = || b(b"#");
    let ab = || Cat(vec![a(), bb()]);
    const CF: &str = "concat_flag";
    const CO: &str = "completion";
    const UN: &str = "universal";
    const IN: &str = "inter";
    const LE: &str = "leaf";
    vec![
        (vec![LE], Eps),
        (vec!["star_of_epsilon"], Star(bx(Eps))),
        (vec!["star_of_epsilon"], Star(bx(Cat(vec![])))),
        (vec!["star_of_epsilon"], Star(bx(Repeat(bx(b(b"a")), 0)))),
        (vec!["star_of_epsilon"], Cat(vec![b(b"a"), Star(bx(Eps)), b(b"b")])),
        (vec!["star_of_epsilon"], Neg(bx(Star(bx(Eps))))),
        (vec!["star_of_epsilon"], Star(bx(Star(bx(b(b"a")))))),
        (vec![UN], Any),
        (vec![UN], Cat(vec![Any])),
        (vec![UN], Union(vec![Any, a()])),
        (vec![UN, IN], Inter(vec![Any, Any])),
        (vec![CF, CO, LE], Neg(bx(Eps))),
        (vec![CO, UN], Neg(bx(Any))),
        (vec![CF, CO], Minus(bx(Any), bx(Eps))),
        (vec![CF, CO], Neg(bx(Cat(vec![])))),
        (vec![CF, CO], Neg(bx(Repeat(bx(a()), 0)))),
        (vec![CO], Neg(bx(Opt(bx(a()))))),
        (vec![CF], Neg(bx(Cat(vec![a(), bb(), Any])))),
        (vec![CF], Neg(bx(Cat(vec![Any, a()])))),
        (vec![CF], Neg(bx(Cat(vec![Any, Any])))),
        (vec![CF], Neg(bx(Cat(vec![Any, a(), Any])))),
        (vec![CF], Minus(bx(Any), bx(Cat(vec![h(), Any])))),
        (vec![CF], Neg(bx(Cat(vec![b(b"ab"), Any])))),
        (vec![CF], Neg(bx(Cat(vec![Star(bx(a())), Any])))),
        (vec![CF], Neg(bx(Cat(vec![Opt(bx(a())), Any, bb()])))),
        (vec![CF], Cat(vec![Neg(bx(Cat(vec![a(), Any]))), h()])),
        (vec![IN, CO], Neg(bx(Inter(vec![Any, Any])))),
        (vec![IN, CO], Neg(bx(Inter(vec![Any, ab()])))),
        (vec![IN, CO], Neg(bx(Inter(vec![Cat(vec![a(), Any]), Cat(vec![Any, bb()])])))),
        (vec![IN], Inter(vec![Cat(vec![a(), Any]), Cat(vec![Any, bb()])])),
        (vec![IN], Minus(bx(Star(bx(b(b"ab")))), bx(Cat(vec![Any, a(), a(), Any])))),
        (vec![CO], Neg(bx(Union(vec![])))),
        (vec![CO], Neg(bx(Union(vec![Eps, a()])))),
        (vec![CO], Neg(bx(Star(bx(a()))))),
        (vec![CO], Neg(bx(Plus(bx(ab()))))),
        (vec![CO], Neg(bx(Neg(bx(ab()))))),
        (vec![CO], Neg(bx(AtMost(bx(a()), 2)))),
        (vec![CO, LE], Neg(bx(a()))),
        (vec![CO, LE], Neg(bx(ab()))),
        (vec![LE], Cat(vec![Star(bx(a())), Star(bx(b(b"ab"))), bb()])),
        (vec![LE], Union(vec![Cat(vec![a(), Star(bx(bb()))]), Cat(vec![Star(bx(a())), bb()])])),
        (vec![LE], Opt(bx(Plus(bx(Opt(bx(a()))))))),
        (vec![LE], Star(bx(Star(bx(ab()))))),
        (vec![LE], Plus(bx(Union(vec![Eps, a()])))),
    ]
}

fn random_expr(rng: &mut Rng, depth: usize) -> E {
    let leaf = depth == 0 || rng.below(4) == 0;
    if leaf {
        return match rng.below(6) {
            0 => Eps,
            1 => Any,
            2 => b(b"a"),
            3 => b(b"b"),
            4 => b(b"ab"),
            _ => b(b"#"),
        };
    }
    let d = depth - 1;
    match rng.below(11) {
        0 | 1 => {
            let n = rng.below(4);
            Cat((0..n).map(|_| random_expr(rng, d)).collect())
        }
        2 => {
            let n = rng.below(3);
            Union((0..n).map(|_| random_expr(rng, d)).collect())
        }
        3 => {
            let n = rng.below(3);
            Inter((0..n).map(|_| random_expr(rng, d)).collect())
        }
        4 | 5 => Neg(bx(random_expr(rng, d))),
        6 => Plus(bx(random_expr(rng, d))),
        7 => Star(bx(random_expr(rng, d))),
        8 => Opt(bx(random_expr(rng, d))),
        9 => Minus(bx(random_expr(rng, d)), bx(random_expr(rng, d))),
        _ => {
            if rng.below(2) == 0 {
                Repeat(bx(random_expr(rng, d)), rng.below(3))
            } else {
                AtMost(bx(random_expr(rng, d)), rng.below(3))
            }
        }
    }
}

fn c19_regex(rng: &mut Rng, rounds: usize) {
    panic::set_hook(Box::new(|_| {}));
    let ws = words(4);
    let mut failures = 0;
    for (keys, e) in fixed_family() {
        check_expr(&keys, &e, &ws);
    }
    for _ in 0..rounds * 25 {
        if failures >= 8 {
            break;
        }
        let e = random_expr(rng, 3);
        // random family: not tied to a contract, reported under its own key
        if !check_expr(&["language_random"], &e, &ws) {
            failures += 1;
        }
    }
}

fn main() {
    let args: Vec<String> = env::args().collect();
    let mode = args.get(1).map(|s| s.as_str()).unwrap_or("");
    let seed: u64 = args.get(2).and_then(|s| s.parse().ok()).unwrap_or(0);
    let rounds: usize = args.get(3).and_then(|s| s.parse().ok()).unwrap_or(6);
    let mut rng = Rng(seed ^ 0x9e37_79b9_7f4a_7c15);
    match mode {
        "c19_regex" => c19_regex(&mut rng, rounds),
        "c05_mod_exp" => c05::run(&|k, case, got, want| report(k, case, got, want)),
        "c05_field_mul" => c05::field_mul::run(&|k, case, got, want| report(k, case, got, want)),
        "c06_foreign" => c06::run(&|k, case, got, want| report(k, case, got, want)),
        "c07_poseidon_varlen" => c07::run(&|k, case, got, want| report(k, case, got, want)),
        _ => {
            eprintln!("unknown mode");
            std::process::exit(2)
        }
    }
    println!("{{\"done\": \"{}\"}}", mode);
}
