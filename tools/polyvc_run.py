"""Runner for PolyVC units: extracts the listed function bodies from /repo's working tree, executes
them symbolically (tools/polyvc.py) against the unit's contracts.py and decides every goal by exact
Groebner reduction."""
import importlib.util
import os
import re
import time

import sympy as sp

import polyvc as pv
import rustscan as rs
from common import DISCHARGED, FAILED, UNDECIDED, UNITS, Obligation, Undecided, repo_read


def load_contracts(d):
    spec = importlib.util.spec_from_file_location("contracts_" + os.path.basename(d), os.path.join(d, "contracts.py"))
    mod = importlib.util.module_from_spec(spec)
    spec.loader.exec_module(mod)
    return mod


def fn_body(text, item, closure=None):
    m = rs.mask(text)
    it = rs.find_item(text, item, m)
    if it.body_open < 0:
        raise rs.ScanError("no body")
    if closure:
        # the body of a closure literal inside the fn: regex ends at the closure's opening brace
        mm = re.search(closure, text[it.body_open:it.body_close])
        if not mm:
            raise rs.ScanError("closure anchor %r not found in %s" % (closure, item))
        o = it.body_open + mm.end() - 1
        if m[o] != "{":
            raise rs.ScanError("closure anchor does not end at '{'")
        c = rs.match_close(m, o)
        return text[o + 1:c], text[it.attr_end:it.body_open]
    # strip comments from the body (kept out of the parser)
    return text[it.body_open + 1:it.body_close], text[it.attr_end:it.body_open]


def auto_solve_order(hyps, prefer=("inv", "o", "t2d", "t2", "d")):
    order = []
    solved = set()
    for h in hyps:
        h = sp.expand(h)
        cands = []
        for s in sorted(h.free_symbols, key=lambda s: s.name):
            if s in solved:
                continue
            if sp.degree(h, s) == 1:
                rank = min([i for i, p in enumerate(prefer) if s.name.startswith(p) or s.name.endswith(p)] + [99])
                cands.append((rank, s.name, s))
        if not cands:
            return None
        cands.sort()
        s = cands[0][2]
        sol = sp.solve(h, s)
        if len(sol) != 1:
            return None
        # earlier solutions must not depend on s
        if any(s in ex.free_symbols for _, ex in order):
            return None
        order.append((s, sol[0]))
        solved.add(s)
    return order


def run_units(unit_names, tier, tag, only_props=None):
    obls = []
    info = {"edits": [], "cmds": [], "trusted_scan": [], "solver_s": 0.0}
    for n in unit_names:
        d = os.path.join(UNITS, n)
        mod = load_contracts(d)
        o, i = run_unit(n, mod, only_props, tier)
        obls += o
        info["edits"] += i["edits"]
        info["cmds"] += i["cmds"]
        info["solver_s"] += i["solver_s"]
        info["trusted_scan"] += getattr(mod, "TRUSTED", [])
    return obls, info


def run_unit(name, mod, only_props, tier):
    prop = mod.PROP if hasattr(mod, "PROP") else name.split("_")[0].upper()
    label = getattr(mod, "LABEL", name.split("_", 1)[1])
    info = {"edits": [], "cmds": ["python3 tools/polyvc_run.py: symbolic execution + sympy.groebner/reduced (sympy %s) on unit %s" % (sp.__version__, name)],
            "solver_s": 0.0}
    seed = int(os.environ.get("VERIF_SEED", "0") or 0)
    obls = []
    cache = {}

    def read(rel):
        if rel not in cache:
            try:
                cache[rel] = repo_read(rel)
            except (IOError, OSError):
                raise Undecided("lost anchor: %s does not exist" % rel)
        return cache[rel]

    def new_ob(fname, fn, clause, props=None):
        pfx = prop if (not props or prop in props) else props[0]
        ob = Obligation("%s.%s.%s" % (pfx, label, fname), props or [prop], "polyvc", mod.FILE + "::" + fn, clause)
        ob.unit_name = name
        obls.append(ob)
        return ob

    # ---- polynomial-valued functions
    for fname, c in getattr(mod, "FUNCTIONS", {}).items():
        ob = new_ob(_slug(fname), " :: ".join(c["item"]), c.get("clause", "postcondition polynomials lie in the ideal of the hypotheses (see contracts.py)"), c.get("props"))
        if c.get("witness"):
            ob.witness = c["witness"]
        ob.needs_witness = bool(c.get("needs_witness"))
        t0 = time.time()
        try:
            body, header = fn_body(read(c.get("file", mod.FILE)), c["item"], c.get("closure"))
            info["edits"].append("extract body of %s :: %s (comments dropped; parsed by polyvc)" % (c.get("file", mod.FILE), " :: ".join(c["item"])))
            if c.get("capture"):
                # statement-range slice: the single regex group captured in the comment-free, whitespace-collapsed
                # body, optionally placed into a context (e.g. followed by a tail expression naming the results)
                sq = rs.squash(body, rs.mask(body))
                mms = list(re.finditer(c["capture"], sq))
                if len(mms) != 1:
                    raise rs.ScanError("capture %r matches %d times" % (c["capture"], len(mms)))
                body = c.get("wrap", "%s") % mms[0].group(1)
                info["edits"].append("slice of %s :: %s: capture %r (rest of the function dropped)" % (c.get("file", mod.FILE), " :: ".join(c["item"]), c["capture"]))
            results = []
            cases = c.get("cases") or [None]
            for case in cases:
                env = c["env"]() if "env" in c else mod.make_env()
                if case:
                    env.case.update(case["case"])
                loc = c["inputs"]()
                out, loc2 = pv.run_body(env, body, loc)
                hyps = list(c["hyps"](loc)) + list(env.hyps) + (list(case.get("hyps", lambda l: [])(loc)) if case else [])
                goals = (case.get("goals") if case and case.get("goals") else c["goals"])(env, out, loc2)
                hyps = hyps + [h for h in env.hyps if not any(h is x for x in hyps)]
                if c.get("only") != "formula":
                    for what, p in getattr(env, "pre_obligations", []):
                        goals.append((what, p))
                for gname, g in goals:
                    okk, rem = pv.in_ideal(g, hyps)
                    results.append(((case or {}).get("name", "") + gname, okk, g, hyps))
                # boolean callee preconditions: the guards passed before the call must imply them (truth table
                # over the atoms; atoms are uninterpreted, so a non-implication is confirmed only by the witness)
                for what, path_at_call, f in (getattr(env, "pre_formulas", []) if c.get("only") != "ideal" else []):
                    pth = path_at_call if path_at_call is not None else ("const", True)
                    okk, cex = pv.formulas_equivalent(("and", pth, ("not", f)), ("const", False))
                    results.append(((case or {}).get("name", "") + what, okk, None, []))
                    if not okk:
                        ob.detail += "%s: the guards passed before the call do not imply the callee's precondition %s (atoms: %s)\n" % (what, _fmt(f), cex)
                # completeness goals: must vanish identically after substituting the honest values
                for gname, g in getattr(env, "completeness", []):
                    results.append(((case or {}).get("name", "") + gname, sp.expand(g) == 0, g, []))
                for gname, g, hh in getattr(env, "converse", []):
                    okk, rem = pv.in_ideal(g, hh)
                    results.append(((case or {}).get("name", "") + gname, okk, g, hh))
            ob.vcs = len(results)
            bad = [r for r in results if not r[1]]
            if not bad and tier == "thorough":
                # independent cross-check of the Groebner verdicts: exact evaluation at random rational points
                # of the hypotheses' variety (does not go through sympy.groebner / reduced)
                for gname, _, g, hyps in results:
                    if g is None:
                        continue
                    pt, val = pv.find_refutation(g, hyps, seed + 17, tries=12)
                    info["crosscheck_points"] = info.get("crosscheck_points", 0) + 12
                    if pt:
                        bad.append((gname, False, g, hyps))
                        ob.detail += "thorough cross-check DISAGREES with the Groebner reduction on clause %s at %s\n" % (gname, pt)
                if bad:
                    ob.status = UNDECIDED
                    ob.seconds = time.time() - t0
                    continue
            if not bad:
                ob.status = DISCHARGED
            else:
                msgs = []
                refuted = False
                for gname, _, g, hyps in bad:
                    if g is None:
                        refuted = True      # boolean precondition not implied (see detail); witness-gated by the unit
                        msgs.append("clause %s: not implied by the guards" % gname)
                        continue
                    order = auto_solve_order(hyps)
                    pt = None
                    if order is not None:
                        pt, val = pv.random_refutation(g, hyps, order, seed)
                    if not pt:
                        pt, val = pv.find_refutation(g, hyps, seed)
                    if pt:
                        refuted = True
                        msgs.append("clause %s: goal polynomial is not in the ideal of the hypotheses; refuting point (all hypotheses vanish, goal does not): %s (goal = %s)" % (gname, pt, val))
                        ob.algebraic_witness = {"clause": gname, "point": pt, "goal_value": val}
                    else:
                        msgs.append("clause %s: remainder non-zero but no refuting point found" % gname)
                ob.detail = (ob.detail or "") + "\n".join(msgs)
                ob.status = FAILED if refuted else UNDECIDED
        except (pv.Unsupported, rs.ScanError) as e:
            ob.status = UNDECIDED
            ob.detail = "%s: %s" % (type(e).__name__, e)
        except Exception as e:  # a crash of the generator is a tool limit, never an alarm
            ob.status = UNDECIDED
            ob.detail = "PolyVC internal error: %s: %s" % (type(e).__name__, e)
        ob.seconds = time.time() - t0
        info["solver_s"] += ob.seconds

    # ---- boolean-valued functions
    for fname, c in getattr(mod, "PREDICATES", {}).items():
        ob = new_ob(_slug(fname), " :: ".join(c["item"]), c["clause"], c.get("props"))
        if c.get("witness"):
            ob.witness = c["witness"]
        ob.needs_witness = bool(c.get("needs_witness"))
        t0 = time.time()
        try:
            body, header = fn_body(read(c.get("file", mod.FILE)), c["item"])
            info["edits"].append("extract body of %s :: %s" % (c.get("file", mod.FILE), " :: ".join(c["item"])))
            env = c["env"]() if "env" in c else mod.make_env()
            loc = c["inputs"]()
            out, _ = pv.run_body(env, body, loc)
            carried = None
            if isinstance(out, pv.Opt):
                # CtOption / Result-valued decoder: the condition formula is checked; the carried value must
                # be the one named by the contract
                carried = out.value
                out = out.cond
            if not isinstance(out, tuple):
                raise pv.Unsupported("result is not a Choice formula")
            spec = c["spec"](loc)
            okk, cex = pv.formulas_equivalent(out, spec)
            ob.vcs = 1
            if okk and carried is not None and "value" in c and not c["value"](carried, loc):
                raise pv.Unsupported("the success condition matches but the carried value is not the one named by the contract")
            if okk:
                ob.status = DISCHARGED
            else:
                ob.status = FAILED
                ob.detail = "returned formula is not equivalent to the specification; distinguishing assignment of the atoms: %s\ncode formula: %s" % (cex, _fmt(out))
        except (pv.Unsupported, rs.ScanError) as e:
            ob.status = UNDECIDED
            ob.detail = "%s: %s" % (type(e).__name__, e)
        except Exception as e:  # a crash of the generator is a tool limit, never an alarm
            ob.status = UNDECIDED
            ob.detail = "PolyVC internal error: %s: %s" % (type(e).__name__, e)
        ob.seconds = time.time() - t0

    # ---- constructor frames: every struct literal of a type lies in a function whose contract establishes
    # the type's invariant (the discipline a type-invariant checker enforces at each constructor)
    for fname, c in getattr(mod, "CONSTRUCTORS", {}).items():
        ob = new_ob(_slug(fname), c["type"] + " (struct literals)", c["clause"], c.get("props"))
        try:
            text = read(c.get("file", mod.FILE))
            m = rs.mask(text)
            sites = []
            outside = []
            for it in rs.split_items(text, m, 0, len(text)):
                if it.kind == "impl" and re.search(r"\b%s\b" % re.escape(c["type"]), it.header) and it.body_open >= 0:
                    for sub in rs.split_items(text, m, it.body_open + 1, it.body_close):
                        if sub.kind == "fn" and sub.body_open >= 0:
                            body = m[sub.body_open:sub.body_close]
                            if re.search(r"\b(Self|%s)\s*\{" % re.escape(c["type"]), body):
                                mm = re.search(r"\bfn\s+(\w+)", sub.header)
                                sites.append(mm.group(1) if mm else sub.header)
                elif it.kind in ("fn", "impl", "mod") and it.body_open >= 0:
                    if re.search(r"\b%s\s*\{" % re.escape(c["type"]), m[it.body_open:it.body_close]):
                        outside.append(it.header[:80])
            info["edits"].append("scan %s for struct literals of %s (masked text; nothing else read)" % (c.get("file", mod.FILE), c["type"]))
            ob.vcs = 1
            extra = sorted(set(sites) - set(c["allowed"])) + outside
            missing = sorted(set(c["allowed"]) - set(sites))
            if not extra and not missing:
                ob.status = DISCHARGED
            else:
                # a new construction site may well establish the invariant: undecided, never an alarm by itself
                ob.status = UNDECIDED
                ob.detail = "struct literals of %s found in %s (contracted constructors: %s)" % (c["type"], sorted(set(sites)) + outside, c["allowed"])
        except rs.ScanError as e:
            ob.status = UNDECIDED
            ob.detail = "lost anchor: %s" % e

    # ---- call-site precondition ledger: functions documenting `# Preconditions` may only be called from the
    # call sites whose establishing argument is recorded (a new call site has an unproved precondition)
    for fname, c in getattr(mod, "CALLSITES", {}).items():
        try:
            text = read(c.get("file", mod.FILE))
            m = rs.mask(text)
            fns = []

            def walk(lo, hi):
                for it in rs.split_items(text, m, lo, hi):
                    if it.kind in ("impl", "mod", "trait") and it.body_open >= 0:
                        walk(it.body_open + 1, it.body_close)
                    elif it.kind == "fn" and it.body_open >= 0:
                        mm = re.search(r"\bfn\s+(\w+)", it.header)
                        if mm:
                            fns.append((mm.group(1), it))
            walk(0, len(text))

            def doc_before(pos):
                out = []
                for l in reversed(text[:pos].split("\n")[:-1]):
                    t = l.strip()
                    if t.startswith("///") or t.startswith("#["):
                        out.append(t)
                    elif t == "" and not out:
                        continue
                    else:
                        break
                return "\n".join(out)
            carrying = sorted({n for n, it in fns if re.search(r"#\s*Precondition", doc_before(it.start))})
            info["edits"].append("scan %s: functions documenting `# Preconditions` and their call sites (masked text)" % c.get("file", mod.FILE))
            for callee in sorted(set(carrying) | set(c["sites"])):
                ob = new_ob(_slug(fname + "." + callee), callee + " (call sites)", c["clause"] % callee, c.get("props"))
                ob.vcs = 1
                found = {}
                for caller, it in fns:
                    k = len(re.findall(r"(?:\.|::)\s*%s\s*(?:::<[^>]*>)?\s*\(" % re.escape(callee), m[it.body_open:it.body_close]))
                    if k:
                        found[caller] = found.get(caller, 0) + k
                want = c["sites"].get(callee)
                if want is None:
                    ob.status = UNDECIDED
                    ob.detail = "`%s` documents preconditions but has no entry in the ledger (call sites: %s)" % (callee, found)
                    continue
                if callee not in carrying:
                    ob.status = UNDECIDED
                    ob.detail = "lost anchor: `%s` no longer documents a `# Preconditions` section" % callee
                    continue
                extra = {k: v for k, v in found.items() if v > want.get(k, 0)}
                if not extra:
                    ob.status = DISCHARGED   # fewer call sites than argued is fine
                else:
                    ob.status = UNDECIDED
                    ob.witness = sorted(extra)[0]
                    ob.detail = ("unregistered call site: `%s` is called from %s, but its preconditions are argued only for %s; "
                                 "nothing establishes them at the new site" % (callee, extra, want))
        except rs.ScanError as e:
            ob = new_ob(_slug(fname), "call sites", "call-site ledger")
            ob.status = UNDECIDED
            ob.detail = "lost anchor: %s" % e

    # ---- panicking-callee ledger: a call to an API documented to panic on some argument is preceded, in the
    # same function, by the guard that rules that argument out
    for fname, c in getattr(mod, "PANICSITES", {}).items():
        ob = new_ob(_slug(fname), " :: ".join(c["item"]), c["clause"], c.get("props"))
        if c.get("witness"):
            ob.witness = c["witness"]
        try:
            text = read(c.get("file", mod.FILE))
            it = rs.find_item(text, c["item"])
            body = rs.fn_body_text(text, it)
            info["edits"].append("scan the body of %s :: %s for the call %r and its guard %r" % (c.get("file", mod.FILE), " :: ".join(c["item"]), c["call"], c["guard"]))
            ob.vcs = 1
            calls = [m_.start() for m_ in re.finditer(c["call"], body)]
            if not calls:
                ob.status = DISCHARGED          # the panicking call is gone
                ob.detail = "no call matching %r in the body" % c["call"]
            elif all(re.search(c["guard"], body[:pos]) for pos in calls):
                ob.status = DISCHARGED
            else:
                ob.status = UNDECIDED
                ob.detail = ("unregistered call site: the body calls %r (%s) without the guard %r before it; nothing establishes the callee's precondition"
                             % (c["call"], c["why"], c["guard"]))
        except rs.ScanError as e:
            ob.status = UNDECIDED
            ob.detail = "lost anchor: %s" % e

    # ---- call chains
    for fname, c in getattr(mod, "CHAINS", {}).items():
        ob = new_ob(_slug(fname), " :: ".join(c["item"]), c["clause"])
        try:
            body, _ = fn_body(read(c.get("file", mod.FILE)), c["item"])
            flat = re.sub(r"\s+", "", re.sub(r"//[^\n]*", "", body))
            ob.vcs = 1
            if re.match(c["chain"], flat):
                ob.status = DISCHARGED
            else:
                ob.status = UNDECIDED
                ob.detail = "body is no longer the recorded chain of contracted calls: %s" % flat[:200]
        except rs.ScanError as e:
            ob.status = UNDECIDED
            ob.detail = "lost anchor: %s" % e

    # ---- constants
    if hasattr(mod, "constants_check"):
        try:
            for item in mod.constants_check(read):
                cname, okk, clause = item[:3]
                ob = new_ob(cname, cname, clause, item[3] if len(item) > 3 else getattr(mod, "CONSTANTS_PROPS", None))
                if len(item) > 4:
                    ob.witness = item[4]
                ob.vcs = 1
                ob.status = DISCHARGED if okk else FAILED
                if not okk:
                    ob.detail = "constant does not satisfy its defining equation: " + clause
        except pv.Unsupported as e:
            ob = new_ob("constants", "constants", "defining equations of the constants")
            ob.status = UNDECIDED
            ob.detail = str(e)
    if only_props:
        obls = [o for o in obls if set(o.props) & set(only_props)]
    return obls, info


def _slug(s):
    return re.sub(r"[^A-Za-z0-9_]+", "_", s).strip("_")


def _fmt(f):
    if f[0] == "eq":
        return "[%s = 0]" % sp.expand(f[1])
    if f[0] == "atom":
        return f[1]
    if f[0] == "const":
        return "true" if f[1] else "false"
    if f[0] == "not":
        return "!(%s)" % _fmt(f[1])
    return "(%s %s %s)" % (_fmt(f[1]), "&" if f[0] == "and" else "|", _fmt(f[2]))
