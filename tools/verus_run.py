"""V back end: Verus on functions extracted verbatim from /repo's working tree on every run.

A unit directory holds
  unit.json      obligations + list of items to extract (file, item path, optional impl wrapper)
  specs.rs       hand-written spec functions and lemmas (spec/proof code only, no exec code)
  contracts.txt  per extracted fn: named return, requires, ensures, ghost hints keyed by statement ordinal

What extraction changes (complete list; printed into the evidence):
  * attributes and doc comments in front of an item are dropped (#[inline], #[allow], #[derive] other than Clone/Copy);
  * visibility qualifiers (pub, pub(crate), pub(super)) are dropped;
  * methods of `impl Trait for T` blocks are emitted as inherent methods of T when the unit says so;
  * `-> T` becomes `-> (r: T)` and requires/ensures are spliced between the signature and `{`;
  * ghost hint lines are INSERTED before the statement with the recorded ordinal (nothing inside the
    body is edited or removed).
If an item is missing, or its statement count differs from the recorded one, the run is UNDECIDED.
"""
import json
import os
import re
import shutil

import rustscan as rs
from common import (DISCHARGED, FAILED, REPO, UNDECIDED, UNITS, Obligation, Undecided, load_json, log,
                    run, repo_read)

VIS = re.compile(r"\bpub\s*(\([^)]*\))?\s*")


def parse_contracts(path):
    """contracts.txt format:
        ### <file> :: <seg> :: <seg>
        ret: r
        stmts: 9
        requires:
            <verus expr>,
        ensures:
            ...
        hint@3:            (inserted before statement 3, 0-based; hint@end = before the closing brace)
            proof { ... }
    """
    out = {}
    cur = None
    key = None
    if not os.path.exists(path):
        return out
    for line in open(path):
        if line.startswith("###"):
            name = " :: ".join(p.strip() for p in line[3:].split("::"))
            cur = {"ret": None, "stmts": None, "requires": [], "ensures": [], "hints": {}, "attrs": []}
            out[name] = cur
            key = None
            continue
        if cur is None or line.strip().startswith("//#"):
            continue
        m = re.match(r"^(ret|stmts|requires|ensures|attr|hint@\w+):\s*(.*)$", line)
        if m and not line[0].isspace():
            key, rest = m.group(1), m.group(2).strip()
            if key == "ret":
                cur["ret"] = rest
            elif key == "stmts":
                cur["stmts"] = int(rest)
            elif key == "attr":
                cur["attrs"].append(rest)
            elif key.startswith("hint@"):
                cur["hints"].setdefault(key[5:], [])
                if rest:
                    cur["hints"][key[5:]].append(rest)
            elif rest:
                cur[key].append(rest)
            continue
        if key in ("requires", "ensures") and line.strip():
            cur[key].append(line.rstrip("\n"))
        elif key and key.startswith("hint@") and line.strip():
            cur["hints"][key[5:]].append(line.rstrip("\n"))
    return out


def _strip_vis(header):
    return VIS.sub("", header)


def extract_fn(text, m, it, con, keyname):
    """Return the Verus text of one fn item with contract and hints spliced in."""
    header = text[it.attr_end:it.body_open]
    header = _strip_vis(header)
    body_lo, body_hi = it.body_open + 1, it.body_close
    stmts = rs.split_statements(text, m, body_lo, body_hi)
    if con is None:
        return header + text[it.body_open:it.end], len(stmts)
    if con["stmts"] is not None and con["stmts"] != len(stmts):
        raise Undecided("lost anchor: %s has %d statements, contract sidecar recorded %d (hint ordinals ambiguous)"
                        % (keyname, len(stmts), con["stmts"]))
    # named return
    if con["ret"]:
        # last '->' at depth 0 of the header
        hm = rs.mask(header)
        idx = hm.rfind("->")
        if idx < 0:
            raise Undecided("no return type in %s" % keyname)
        rty = header[idx + 2:].strip()
        wh = re.search(r"\bwhere\b", rty)
        if wh:
            raise Undecided("where-clause in %s not supported by the splicer" % keyname)
        header = header[:idx] + "-> (%s: %s)" % (con["ret"], rty)
    spec = ""
    if con["requires"]:
        spec += "\n    requires\n" + "\n".join(con["requires"])
    if con["ensures"]:
        spec += "\n    ensures\n" + "\n".join(con["ensures"])
    # body with hints
    pieces = []
    pos = body_lo
    for k, (s, e) in enumerate(stmts):
        h = con["hints"].get(str(k))
        if h:
            pieces.append(text[pos:s])
            pieces.append("/*verif-hint*/ " + "\n".join(h) + "\n        ")
            pos = s
    pieces.append(text[pos:body_hi])
    h = con["hints"].get("end")
    body = "".join(pieces)
    if h:
        raise Undecided("hint@end not supported (use the ordinal of the tail expression)")
    for k in con["hints"]:
        if k != "end" and int(k) >= len(stmts):
            raise Undecided("hint ordinal %s beyond the %d statements of %s" % (k, len(stmts), keyname))
    attrs = "".join(a + "\n" for a in con["attrs"])
    return attrs + header.rstrip() + spec + "\n{" + body + "}", len(stmts)


def assemble(unit_dir, cfg, read=repo_read):
    cons = parse_contracts(os.path.join(unit_dir, "contracts.txt"))
    used = set()
    parts = []
    edits = []
    fn_lines = {}  # emitted fn name -> key
    cur_impl = None
    body = []

    def close_impl():
        nonlocal cur_impl
        if cur_impl is not None:
            body.append("}\n")
            cur_impl = None

    for ent in cfg["items"]:
        rel = ent["file"]
        try:
            text = read(rel)
        except (IOError, OSError):
            raise Undecided("lost anchor: %s does not exist" % rel)
        m = rs.mask(text)
        try:
            it = rs.find_item(text, ent["item"], m)
        except rs.ScanError as e:
            raise Undecided("lost anchor: %s :: %s (%s)" % (rel, " :: ".join(ent["item"]), e))
        key = rel + " :: " + " :: ".join(ent["item"])
        kind = it.kind
        if "capture" in ent:
            # sub-expression slice: the single group of a regex on the comment-free, whitespace-collapsed body
            import re as _re
            btxt = rs.fn_body_text(text, it)
            mms = list(_re.finditer(ent["capture"], btxt))
            if len(mms) != 1:
                raise Undecided("lost anchor: capture %r matches %d times in %s" % (ent["capture"], len(mms), key))
            ent = dict(ent, let="capture:" + ent["name"])
            # two groups: a statement prefix (the `let`s the expression depends on) followed by the expression
            _captured = mms[0].group(1) if mms[0].lastindex == 1 else (mms[0].group(1) + " " + mms[0].group(2))
            for a_, b_ in ent.get("subst_optional", {}).items():
                _captured = _captured.replace(a_, b_)
        else:
            _captured = None
        if "let" in ent:
            # statement slice: initialiser of one `let`, wrapped as a function of its free names
            try:
                expr = _captured if _captured is not None else rs.slice_let(text, it, ent["let"], ent.get("nth", 0), ent.get("count"))
            except rs.ScanError as e:
                raise Undecided("lost anchor: %s :: let %s (%s)" % (key, ent["let"], e))
            for a_, b_ in ent.get("subst", {}).items():
                if a_ not in expr:
                    raise Undecided("lost anchor: %r not in the initialiser of `let %s`" % (a_, ent["let"]))
                expr = expr.replace(a_, b_)
            skey = key + " :: let " + ent["let"] + ("#%d" % ent["nth"] if "nth" in ent else "")
            con = cons.get(skey)
            if con is None:
                raise Undecided("no contract for slice %s" % skey)
            used.add(skey)
            close_impl()
            spec = ""
            if con["requires"]:
                spec += "\n    requires\n" + "\n".join(con["requires"])
            if con["ensures"]:
                spec += "\n    ensures\n" + "\n".join(con["ensures"])
            hint = "\n".join(con["hints"].get("0", []))
            body.append("// ---- statement slice: %s\n%s%s\n{\n    %s\n    %s\n}\n\n" % (skey, ent["as_fn"], spec, hint, expr))
            edits.append("slice %s as `%s` (rest of the function dropped; substitutions %s)" % (skey, ent["as_fn"], ent.get("subst", {})))
            continue
        if kind == "fn":
            con = cons.get(key)
            if con is not None:
                used.add(key)
            code, n = extract_fn(text, m, it, con, key)
            impl = ent.get("impl")
            if impl != cur_impl:
                close_impl()
                if impl:
                    body.append("impl %s {\n" % impl)
                    cur_impl = impl
            body.append("// ---- extracted verbatim: %s (%d statements%s)\n" % (key, n, ", contract spliced" if con else ""))
            body.append(code + "\n\n")
            edits.append("extract %s: dropped attributes/doc comments/visibility%s%s" % (
                key, "; emitted as inherent method of " + impl if impl and ent["item"][0] != "impl " + impl else "",
                "; inserted %d ghost hint block(s)" % len(con["hints"]) if con and con["hints"] else ""))
        else:
            impl = ent.get("impl")
            if impl != cur_impl:
                close_impl()
                if impl:
                    body.append("impl %s {\n" % impl)
                    cur_impl = impl
            code = _strip_vis(text[it.attr_end:it.end])
            for a_, b_ in ent.get("rewrite", {}).items():
                if a_ not in code:
                    raise Undecided("lost anchor: rewrite source %r not in %s" % (a_, key))
                code = code.replace(a_, b_)
            pre = ent.get("prefix", "")
            body.append("// ---- extracted verbatim: %s\n%s%s\n\n" % (key, pre + ("\n" if pre else ""), code))
            edits.append("extract %s: dropped attributes/doc comments/visibility%s%s" % (key, "; added " + pre if pre else "",
                                                                                          "; rewrote %s" % ent["rewrite"] if ent.get("rewrite") else ""))
    close_impl()
    unused = set(cons) - used
    if unused:
        raise Undecided("contract sidecar names items that are not extracted: %s" % sorted(unused))
    specs = open(os.path.join(unit_dir, "specs.rs")).read()
    src = ("// GENERATED on every run by tools/verus_run.py from /repo's working tree -- do not edit\n"
           "#![allow(unused, non_snake_case, non_upper_case_globals)]\n" + cfg.get("uses", "use vstd::prelude::*;\n") +
           "verus! {\n\n// ======== hand-written specification and lemmas (specs.rs) ========\n" + specs +
           "\n// ======== code extracted from the repository ========\n" + "".join(body) + "\n} // verus!\nfn main() {}\n")
    return src, edits


TRUST_PAT = re.compile(r"\b(assume\s*\(|admit\s*\(|external_body|assume_specification|external_fn_specification|#\[verifier::external)")


def run_units(unit_names, tier, tag, only_props=None):
    obls = []
    info = {"edits": [], "cmds": [], "trusted_scan": [], "solver_s": 0.0, "functions": {}}
    for n in unit_names:
        d = os.path.join(UNITS, n)
        cfg = load_json(os.path.join(d, "unit.json"))
        o, i = run_unit(n, d, cfg, tier, tag, only_props)
        obls += o
        info["edits"] += i["edits"]
        info["cmds"] += i["cmds"]
        info["trusted_scan"] += i["trusted_scan"]
        info["solver_s"] += i["solver_s"]
        info["functions"].update(i["functions"])
    return obls, info


def run_unit(name, d, cfg, tier, tag, only_props):
    import tempfile
    src, edits = assemble(d, cfg)
    work = tempfile.mkdtemp(prefix="mzk-verus-%s-" % name)
    try:
        return _run_unit(name, d, cfg, tier, src, edits, work, only_props)
    finally:
        if os.environ.get("VERIF_KEEP_SCRATCH"):
            log("keeping", work)
        else:
            shutil.rmtree(work, ignore_errors=True)


def _run_unit(name, d, cfg, tier, src, edits, work, only_props):
    path = os.path.join(work, name + ".rs")
    with open(path, "w") as f:
        f.write(src)
    gen = os.path.join(d, "generated.rs")  # kept for inspection (gitignored)
    try:
        shutil.copy(path, gen)
    except OSError:
        pass
    # trusted-base scan
    allowed = cfg.get("trusted_allow", [])
    scan = []
    for i, line in enumerate(src.splitlines(), 1):
        mm = TRUST_PAT.search(line.split("//")[0])
        if mm:
            scan.append("%s.rs:%d: %s" % (name, i, line.strip()[:160]))
    for s in scan:
        if not any(a in s for a in allowed):
            raise Undecided("unexpected trusted construct in assembled unit %s: %s" % (name, s))
    rlimit = cfg.get("rlimit", 100) * (4 if tier == "thorough" else 1)
    cmd = ["verus", path, "--output-json", "--time", "--multiple-errors", "20", "--rlimit", str(rlimit),
           "--num-threads", "8"]
    info = {"edits": edits, "cmds": [" ".join(cmd).replace(work, "<scratch>")], "trusted_scan": scan, "solver_s": 0.0,
            "functions": {}}
    rc, out, secs = run(cmd, cwd=work, timeout=cfg.get("timeout", 1800 if tier == "quick" else 7200))
    # stdout is JSON, stderr (merged) has diagnostics: split at first '{' line
    jstart = out.find("\n{\n")
    if out.startswith("{"):
        jstart = 0
    js, diag = None, out
    if jstart >= 0:
        # JSON object ends at the matching closing brace at column 0
        end = out.find("\n}\n", jstart)
        if end >= 0:
            try:
                js = json.loads(out[jstart:end + 2])
                diag = out[:jstart] + out[end + 3:]
            except ValueError:
                js = None
    if js is None:
        raise Undecided("verus produced no JSON (rc=%s): %s" % (rc, out[-3000:]))
    vr = js["verification-results"]
    lines = src.splitlines()
    # a failed `by (compute_only)` assertion aborts Verus before SMT: it is a definite refutation of
    # that lemma (constants evaluated by the interpreter), not a tool limit
    comp = {}
    for mm in re.finditer(r"^error: (expression simplifies to .*)\n\s+--> [^:\n]+:(\d+):\d+", diag, re.M):
        ln = int(mm.group(2))
        comp.setdefault(_enclosing_fn(lines, ln), []).append("%s (line %d: %s)" % (mm.group(1)[:300], ln, lines[ln - 1].strip()[:160]))
    if comp:
        obls = []
        for o in cfg["obligations"]:
            if only_props and not (set(o["props"]) & set(only_props)):
                continue
            ob = Obligation(o["name"], o["props"], "verus", o["fn"], o["clause"], o.get("class", "complete"), o.get("bound"))
            ob.unit_name = name
            ob.witness = o.get("witness")
            hit = [f for f in o["verus_fns"] if f.split("::")[-1] in comp]
            if hit:
                ob.status = FAILED
                ob.detail = "\n".join(sum([comp[f.split("::")[-1]] for f in hit], []))
            else:
                ob.status = UNDECIDED
                ob.detail = "verification aborted: a compute_only assertion failed in %s" % sorted(comp)
            obls.append(ob)
        return obls, info
    if vr.get("encountered-vir-error") or (vr.get("encountered-error") and vr.get("errors", 0) == 0 and not vr.get("success")):
        raise Undecided("verus front-end error (unsupported construct / type error) in unit %s:\n%s" % (name, diag[-3000:]))
    funcs = {}
    for mt in js["times-ms"]["smt"].get("smt-run-module-times", []):
        for fb in mt.get("function-breakdown", []):
            fname = fb["function"].split("::", 1)[1] if "::" in fb["function"] else fb["function"]
            funcs[fname] = fb
            info["solver_s"] += fb.get("time-micros", 0) / 1e6
    info["functions"] = {k: {"ok": v["success"], "ms": v["time"], "rlimit": v["rlimit"]} for k, v in funcs.items()}
    # diagnostics per function: map error line -> enclosing fn in generated source
    errs = {}
    for mm in re.finditer(r"^error(?:\[\w+\])?: (.*)\n\s+--> [^:\n]+:(\d+):\d+", diag, re.M):
        msg, ln = mm.group(1), int(mm.group(2))
        fn = _enclosing_fn(lines, ln)
        errs.setdefault(fn, []).append("%s (line %d: %s)" % (msg, ln, lines[ln - 1].strip()[:140] if ln <= len(lines) else ""))
    obls = []
    for o in cfg["obligations"]:
        if o.get("tier", "quick") == "thorough" and tier != "thorough":
            continue
        if only_props and not (set(o["props"]) & set(only_props)):
            continue
        ob = Obligation(o["name"], o["props"], "verus", o["fn"], o["clause"], o.get("class", "complete"), o.get("bound"))
        ob.unit_name = name
        ob.witness = o.get("witness")
        need = o["verus_fns"]
        ob.vcs = len(need)
        missing = [f for f in need if f not in funcs]
        if missing:
            ob.status = UNDECIDED
            ob.detail = "vacuity guard: Verus reported no query for %s (function not checked)" % missing
            obls.append(ob)
            continue
        bad = [f for f in need if not funcs[f]["success"]]
        ob.seconds = sum(funcs[f].get("time-micros", 0) for f in need) / 1e6
        if not bad:
            ob.status = DISCHARGED
        else:
            msgs = sum([errs.get(f.split("::")[-1], []) for f in bad], [])
            ob.detail = "\n".join(msgs) or "verus reported failure in %s" % bad
            real = [x for x in msgs if "rlimit" not in x and "Resource limit" not in x and "timed out" not in x]
            ob.status = FAILED if real else UNDECIDED
        obls.append(ob)
    return obls, info


def _enclosing_fn(lines, ln):
    for i in range(min(ln, len(lines)) - 1, -1, -1):
        mm = re.match(r"\s*(?:pub\s+)?(?:broadcast\s+)?(?:const\s+)?(?:proof\s+|spec\s+|exec\s+)?fn\s+(\w+)", lines[i])
        if mm:
            return mm.group(1)
    return "?"
