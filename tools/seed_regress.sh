#!/bin/bash
# Regression over the stored seeded changes: applies each seeded/<id>/patch.diff to a scratch copy of /repo and runs
# the check of the property named by the seed id.  Prints one line per seed.  (Not a registered check.)
out=${1:-/tmp/seed_regress.log}
: > $out
for d in /verif/seeded/*/; do
  id=$(basename $d); prop=${id%%-*}
  rm -rf /tmp/probe_sr && rsync -a --exclude target --exclude .git /repo/ /tmp/probe_sr/
  if ! (cd /tmp/probe_sr && patch -p1 -s --no-backup-if-mismatch < $d/patch.diff >/dev/null 2>&1); then
    echo "$id: PATCH DOES NOT APPLY to the current tree" | tee -a $out; continue
  fi
  res=$(cd /verif && VERIF_REPO=/tmp/probe_sr timeout 3000 ./check $prop 2>&1 | grep -E "^VIOLATION|^UNDECIDED|tier=" | cut -c1-220 | tr '\n' ' ')
  echo "$id: $res" | tee -a $out
done
rm -rf /tmp/probe_sr
git -C /verif checkout -- evidence 2>/dev/null
