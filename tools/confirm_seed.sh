#!/bin/bash
# usage: confirm_seed.sh <worktree> <target_dir> <patch> <demo_src> <demo_dst_rel> "<demo cmd>" "<suite cmd>"
# Confirms: suite passes with patch; demo fails with patch; demo passes without.
WT=$1; TD=$2; PATCH=$3; DEMO=$4; DST=$5; DEMOCMD=$6; SUITECMD=$7
export CARGO_TARGET_DIR=$TD CARGO_NET_OFFLINE=true
cd $WT || exit 2
git checkout -q -- . ; git clean -fdq
git apply $PATCH || { echo "PATCH DOES NOT APPLY"; exit 2; }
place_demo() { if [[ "$DST" == APPEND:* ]]; then cat $DEMO >> ${DST#APPEND:}; else mkdir -p $(dirname $DST); cp $DEMO $DST; fi; }
place_demo
echo "== demo WITH change"; bash -c "$DEMOCMD" 2>&1 | grep -E "^test result|FAILED|panicked" | head -5
echo "== suite WITH change"; bash -c "$SUITECMD" 2>&1 | grep -E "^test result" | head -5
git checkout -q -- . ; place_demo
echo "== demo WITHOUT change"; bash -c "$DEMOCMD" 2>&1 | grep -E "^test result|FAILED|panicked" | head -5
[[ "$DST" == APPEND:* ]] || rm -f $DST; git checkout -q -- . ; git clean -fdq
