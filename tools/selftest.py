#!/usr/bin/env python3
"""setup_cmd: nothing to build (the framework is Python + tool invocations); verify the
pre-installed tools this machinery needs are reachable and the scanner works on /repo."""
import glob
import os
import shutil
import subprocess
import sys

HERE = os.path.dirname(os.path.abspath(__file__))
sys.path.insert(0, HERE)
import rustscan as rs  # noqa: E402
from common import REPO  # noqa: E402

ok = True
for tool in ("verus", "cargo-kani", "cbmc", "rsync", "python3-vt"):
    if shutil.which(tool) is None:
        print("MISSING tool:", tool)
        ok = False
n = 0
for f in glob.glob(os.path.join(REPO, "*", "src", "**", "*.rs"), recursive=True):
    s = open(f).read()
    try:
        rs.split_items(s, rs.mask(s), 0, len(s))
        n += 1
    except Exception as e:  # scanner failure on a file is reported, not fatal for setup
        print("scanner could not split", f, e)
print("selftest: scanner split %d source files; tools ok=%s" % (n, ok))
sys.exit(0 if ok else 1)
