"""K back end: Kani on the real crates.  Harness modules are injected into a scratch copy
of /repo's working tree (one `#[cfg(kani)] #[path=..] mod ..;` line appended to the file that
owns the private items) and `kani::requires/ensures` attributes are inserted above the real
`fn` items named in the unit's `contracts` list.  Nothing in /repo is modified."""
import json
import os
import re
import shutil

import rustscan as rs
from common import (DISCHARGED, FAILED, NCPU, UNDECIDED, UNITS, Obligation, Scratch, Undecided,
                    load_json, log, run)

NOISE = re.compile(r"^(warning|\s*\||\s*=|\s*-->|\s*$|\d+ \|)")


def _filter(out):
    return "\n".join(l for l in out.splitlines() if not NOISE.match(l))


def prepare(scratch, units, tier="quick"):
    """Inject harness modules and contract attributes.  Returns (log of edits)."""
    edits = []
    hdir = os.path.join(scratch.root, "harness")
    os.makedirs(hdir, exist_ok=True)
    for u in units:
        cfg = u["cfg"]
        if cfg.get("standalone"):
            # Extraction route for items an injected module cannot name (fn nested in a fn):
            # the item text is copied verbatim into a dependency-free crate.
            cdir = os.path.join(scratch.root, "standalone", u["name"])
            os.makedirs(os.path.join(cdir, "src"))
            parts = ["#![allow(dead_code, unused)]\n" + cfg.get("prelude", "")]
            for ex in cfg["extract"]:
                if not os.path.exists(scratch.path(ex["file"])):
                    raise Undecided("lost anchor: %s does not exist" % ex["file"])
                text = scratch.read(ex["file"])
                try:
                    it = rs.find_item(text, ex["item"])
                except rs.ScanError as e:
                    raise Undecided("lost anchor: %s in %s (%s)" % (ex["item"], ex["file"], e))
                if ex.get("fn_body"):
                    # whole-body slice: the body text of the fn with the listed textual substitutions, under a
                    # new signature whose parameters stand for the substituted sub-expressions
                    expr = rs.fn_body_text(text, it)
                    for a, b in ex.get("subst", {}).items():
                        if a not in expr:
                            raise Undecided("lost anchor: %r not in the body of %s :: %s" % (a, ex["file"], ex["item"]))
                        expr = expr.replace(a, b)
                    fn_txt = "pub %s {\n    %s\n}\n" % (ex["as_fn"], expr)
                    if ex.get("impl"):
                        fn_txt = "impl %s {\n%s}\n" % (ex["impl"], fn_txt)   # so that `Self` resolves as in the source
                    parts.append("// body slice of %s :: %s (substitutions %s)\n%s"
                                 % (ex["file"], " :: ".join(ex["item"]), ex.get("subst", {}), fn_txt))
                    edits.append("extract the body of %s :: %s as `%s` with substitutions %s (signature replaced)"
                                 % (ex["file"], " :: ".join(ex["item"]), ex["as_fn"], ex.get("subst", {})))
                    continue
                if "capture" in ex:
                    # sub-expression slice: the single regex group captured in the comment-free,
                    # whitespace-collapsed body of the fn, wrapped into a function
                    body_txt = rs.fn_body_text(text, it)
                    mms = list(re.finditer(ex["capture"], body_txt))
                    if len(mms) != 1:
                        raise Undecided("lost anchor: capture %r matches %d times in %s :: %s" % (ex["capture"], len(mms), ex["file"], ex["item"]))
                    expr = mms[0].group(1)
                    for a, b in ex.get("subst", {}).items():
                        expr = expr.replace(a, b)   # optional renamings of generic constants to parameters
                    if ex.get("wrap"):
                        expr = ex["wrap"] % expr    # the captured text is placed into the stated context
                    parts.append("// sub-expression slice of %s :: %s : capture %r (renamings %s)\npub %s {\n    %s\n}\n"
                                 % (ex["file"], " :: ".join(ex["item"]), ex["capture"], ex.get("subst", {}), ex["as_fn"], expr))
                    edits.append("extract the sub-expression captured by %r from %s :: %s as `%s` (rest of the function dropped; renamings %s)"
                                 % (ex["capture"], ex["file"], " :: ".join(ex["item"]), ex["as_fn"], ex.get("subst", {})))
                    continue
                if "field" in ex:
                    ex["let"] = ex["field"] + ":"   # reported as a field initialiser below
                if "let" in ex:
                    # statement slice: the initialiser expression of one `let` of the fn body (or of one field
                    # of a struct literal in it), wrapped into a function whose parameters are the free names
                    # of that expression
                    try:
                        if "field" in ex:
                            expr = rs.slice_field(text, it, ex["field"], ex.get("nth", 0), ex.get("count"))
                        else:
                            expr = rs.slice_let(text, it, ex["let"], ex.get("nth", 0), ex.get("count"))
                    except rs.ScanError as e:
                        raise Undecided("lost anchor: `let %s` in %s :: %s (%s)" % (ex["let"], ex["file"], ex["item"], e))
                    for a, b in ex.get("subst", {}).items():
                        if a not in expr:
                            raise Undecided("lost anchor: %r not in the initialiser of `let %s` (%s)" % (a, ex["let"], expr[:200]))
                        expr = expr.replace(a, b)
                    parts.append("// statement slice of %s :: %s : `let %s = ...;`  (substitutions %s)\npub %s {\n    %s\n}\n"
                                 % (ex["file"], " :: ".join(ex["item"]), ex["let"], ex.get("subst", {}), ex["as_fn"], expr))
                    edits.append("extract the initialiser of `let %s` from %s :: %s as `%s` (rest of the function dropped; substitutions %s)"
                                 % (ex["let"], ex["file"], " :: ".join(ex["item"]), ex["as_fn"], ex.get("subst", {})))
                    continue
                code = text[it.start:it.end]
                if it.kind in ("struct", "enum"):
                    code = text[it.attr_end:it.end]   # derives / cfg_attr of the data type are dropped
                    if ex.get("derive"):
                        code = "#[derive(%s)]\n%s" % (ex["derive"], code)
                for a_, b_ in ex.get("subst", {}).items():
                    code = code.replace(a_, b_)      # e.g. visibility `pub(super)` -> `pub` (no parent module here)
                if ex.get("impl"):
                    code = "impl %s {\n%s\n}" % (ex["impl"], code)   # a method: re-wrapped in its impl header
                parts.append("// extracted verbatim from %s :: %s\n%s\n" % (ex["file"], " :: ".join(ex["item"]), code))
                edits.append("extract verbatim %s :: %s into a stand-alone crate (enclosing item and rest of file dropped)"
                             % (ex["file"], " :: ".join(ex["item"])))
            hsrc = os.path.join(u["dir"], cfg["harness"])
            hdst = os.path.join(cdir, "src", "verif_harness.rs")
            shutil.copy(hsrc, hdst)
            parts.append("#[cfg(kani)] mod verif_harness;\n")
            with open(os.path.join(cdir, "src", "lib.rs"), "w") as f:
                f.write("\n".join(parts))
            with open(os.path.join(cdir, "Cargo.toml"), "w") as f:
                f.write('[package]\nname = "verif_%s"\nversion = "0.0.0"\nedition = "2021"\n[workspace]\n' % u["name"])
            cfg["package_dir"] = os.path.relpath(cdir, scratch.src)
            cfg["inject"] = [{"_scratch_harness": hdst, "file": None}]
            continue
        for inj in cfg.get("inject", []):
            src = os.path.join(u["dir"], inj["harness"])
            dst = os.path.join(hdir, "%s__%s" % (u["name"], os.path.basename(inj["harness"])))
            shutil.copy(src, dst)
            if tier == "thorough" and cfg.get("thorough_subst"):
                # thorough tier: larger caps for the BOUNDED items (textual substitution of harness constants)
                txt = open(dst).read()
                for a_, b_ in cfg["thorough_subst"].items():
                    if a_ not in txt and inj["harness"] in cfg.get("thorough_subst_files", [inj["harness"]]):
                        raise Undecided("thorough_subst anchor %r not in %s" % (a_, inj["harness"]))
                    txt = txt.replace(a_, b_)
                open(dst, "w").write(txt)
                edits.append("thorough tier: harness constants of %s substituted: %s" % (u["name"], cfg["thorough_subst"]))
            inj["_scratch_harness"] = dst
            rel = inj["file"]
            if not os.path.exists(scratch.path(rel)):
                raise Undecided("lost anchor: %s does not exist" % rel)
            text = scratch.read(rel)
            modname = inj.get("mod", "verif_kani_" + u["name"])
            line = '\n#[cfg(kani)] #[path = "%s"] mod %s;\n' % (dst, modname)
            scratch.write(rel, text + line)
            edits.append("append to %s: %s" % (rel, line.strip()))
        # contract attributes, inserted above the fn item (after its other attributes)
        byfile = {}
        for c in cfg.get("contracts", []):
            byfile.setdefault(c["file"], []).append(c)
        for rel, cs in byfile.items():
            if not os.path.exists(scratch.path(rel)):
                raise Undecided("lost anchor: %s does not exist" % rel)
            text = scratch.read(rel)
            ins = []
            for c in cs:
                try:
                    it = rs.find_item(text, c["item"])
                except rs.ScanError as e:
                    raise Undecided("lost anchor: %s in %s (%s)" % (c["item"], rel, e))
                attrs = "".join("#[cfg_attr(kani, %s)]\n" % a for a in c["attrs"])
                ins.append((it.attr_end, attrs))
                edits.append("insert above %s::%s: %s" % (rel, "::".join(c["item"]), "; ".join(c["attrs"])))
            for pos, attrs in sorted(ins, reverse=True):
                text = text[:pos] + attrs + text[pos:]
            scratch.write(rel, text)
    return edits


def _kani_cmd(harnesses, target, outjson, flags, timeout_s, jobs):
    cmd = ["cargo", "kani", "--target-dir", target, "--output-format", "terse",
           "-Z", "unstable-options", "--export-json", outjson, "--harness-timeout", str(timeout_s)]
    if jobs > 1:
        cmd += ["-j", str(jobs)]
    for f in flags:
        cmd.append(f)
    for h in harnesses:
        cmd += ["--harness", h]
    return cmd


def run_units(unit_names, tier, tag, only_props=None):
    """Run all Kani obligations of the named units.  Returns (obligations, info)."""
    units = []
    for n in unit_names:
        d = os.path.join(UNITS, n)
        units.append({"name": n, "dir": d, "cfg": load_json(os.path.join(d, "unit.json"))})
    info = {"edits": [], "kani_cmds": [], "build_s": 0.0, "cbmc_properties": 0, "solver_s": 0.0, "trusted_scan": []}
    obls = []
    # mechanical scan of the harness sources for stubs / assumptions that weaken a proof
    for u in units:
        info["trusted_scan"] += ["%s: %s" % (u["name"], t) for t in u["cfg"].get("trusted", [])]
        for fn in os.listdir(u["dir"]):
            if fn.endswith(".rs"):
                for i, line in enumerate(open(os.path.join(u["dir"], fn)), 1):
                    code = line.split("//")[0]
                    if "kani::stub" in code or "stub_verified" in code:
                        info["trusted_scan"].append("%s/%s:%d: %s" % (u["name"], fn, i, code.strip()))
    with Scratch(tag) as sc:
        info["edits"] = prepare(sc, units, tier)
        if os.environ.get("VERIF_PREPARE_ONLY"):
            os.environ["VERIF_KEEP_SCRATCH"] = "1"
            raise Undecided("prepared scratch only: %s" % sc.root)
        groups = {}
        for u in units:
            for o in u["cfg"]["obligations"]:
                if o.get("tier", "quick") == "thorough" and tier != "thorough":
                    continue
                if only_props and not (set(o["props"]) & set(only_props)):
                    continue
                ob = Obligation(o["name"], o["props"], "kani", o["fn"], o["clause"],
                                o.get("class", "complete"), o.get("bound"))
                ob.harness = o["harness"]
                ob.unit = u
                ob.timeout = o.get("timeout", 600 if tier == "quick" else 3600)
                ob.nonterm_violation = bool(o.get("nontermination_is_violation"))
                ob.witness = o.get("witness")
                obls.append(ob)
                groups.setdefault(u["cfg"]["package_dir"], []).append(ob)
        for pkg, obs in groups.items():
            pairs, rest = [], []
            for ob in obs:
                fl = ob.unit["cfg"].get("kani_flags", [])
                i = 0
                while i < len(fl):
                    if fl[i] == "-Z":
                        if fl[i + 1] not in pairs:
                            pairs.append(fl[i + 1])
                        i += 2
                    else:
                        if fl[i] not in rest:
                            rest.append(fl[i])
                        i += 1
            flags = [x for p in pairs for x in ("-Z", p)] + rest
            outjson = os.path.join(sc.root, "kani_%s.json" % pkg.replace("/", "_"))
            tmo = max(ob.timeout for ob in obs)
            jobs = min(NCPU, max(1, len(obs)))
            memcap = int(os.environ.get("VERIF_KANI_JOBS", "0"))
            if memcap:
                jobs = min(jobs, memcap)
            cmd = _kani_cmd(sorted({ob.harness for ob in obs}), sc.target, outjson, flags, tmo, jobs)
            info["kani_cmds"].append("(cd <scratch>/%s && %s)" % (pkg, " ".join(cmd).replace(sc.root, "<scratch>")))
            rc, out, secs = run(cmd, cwd=sc.path(pkg), timeout=tmo * (1 + len(obs) // jobs) + 1800)
            if not os.path.exists(outjson):
                raise Undecided("cargo kani produced no result file (rc=%s):\n%s" % (rc, _filter(out)[-3000:]))
            res = load_json(outjson)
            _collect(res, obs, out, info)
            info["build_s"] += max(0.0, secs - res["verification_results"]["summary"].get("duration_ms", 0) / 1000.0)
            # counterexamples for failed harnesses
            failed = [ob for ob in obs if ob.status == FAILED]
            for ob in failed:
                _playback(sc, pkg, ob, flags, tmo)
    return obls, info


def _collect(res, obs, out, info):
    by = {}
    for r in res["verification_results"]["results"]:
        by[r["harness_id"].split("::")[-1]] = r
    pd = {p["harness_id"].split("::")[-1]: p["property_details"] for p in res.get("property_details", [])}
    cb = {c["harness_id"].split("::")[-1]: c for c in res.get("cbmc", [])}
    for ob in obs:
        r = by.get(ob.harness)
        if r is None:
            ob.status = UNDECIDED
            ob.detail = "harness %s not executed by Kani (not found / build error)\n%s" % (ob.harness, _filter(out)[-2000:])
            continue
        ob.seconds = r.get("duration_ms", 0) / 1000.0
        d = pd.get(ob.harness, {})
        ob.vcs = d.get("total_properties") or len(r.get("checks") or [])
        info["cbmc_properties"] += ob.vcs
        st = (cb.get(ob.harness) or {}).get("cbmc_stats") or {}
        info["solver_s"] += float(st.get("runtime_decision_procedure_s", 0) or 0) + float(st.get("runtime_solver_s", 0) or 0)
        checks = r.get("checks") or []
        bad = [c for c in checks if c.get("status") not in ("Success", "Unreachable", "Satisfied", "SUCCESS", "UNREACHABLE", "SATISFIED")]
        if r.get("status") == "Success":
            # vacuity: every cover in the harness must be satisfied, and there must be checks
            if ob.vcs == 0:
                ob.status, ob.detail = UNDECIDED, "vacuous: zero properties checked"
            elif d.get("unsatisfiable", 0) or d.get("uncovered", 0):
                ob.status, ob.detail = UNDECIDED, "vacuous: a cover! behind the precondition is unsatisfiable"
            else:
                ob.status = DISCHARGED
            continue
        descr = ["%s [%s] @%s:%s in %s" % (c.get("description"), c.get("status"), c.get("location", {}).get("file"),
                                         c.get("location", {}).get("line"), c.get("function")) for c in bad]
        ob.detail = "\n".join(descr) or ("kani status %s" % r.get("status"))
        real = [c for c in bad if c.get("status") in ("Failure", "FAILURE")
                and "unwinding assertion" not in (c.get("description") or "")
                and c.get("category") not in ("unsupported_construct", "unwind")]
        unwind_fail = [c for c in bad if c.get("status") in ("Failure", "FAILURE") and "unwinding assertion" in (c.get("description") or "")]
        if not real and unwind_fail and getattr(ob, "nonterm_violation", False):
            # the harness bound is sufficient for every terminating implementation on this input size
            real = unwind_fail
            ob.detail += "\n(unwinding/recursion bound exceeded on a fixed 2-element input: the function does not terminate)"
        if real:
            ob.status = FAILED
            ob.failed_checks = descr
        else:
            ob.status = UNDECIDED
            if not bad:
                ob.detail = "kani reported %s without failed checks (timeout / out of memory / solver error)" % r.get("status")


_PB = re.compile(r"```\n(.*?)```", re.S)


def _playback(sc, pkg, ob, flags, tmo):
    """Ask Kani for concrete values of a failing harness and execute the harness natively
    (real code, rustc build) on them."""
    cmd = ["cargo", "kani", "--target-dir", sc.target, "--output-format", "terse",
           "-Z", "concrete-playback", "--concrete-playback=print", "--harness", ob.harness, "--exact"]
    # --exact needs the full name; fall back to filter without it
    cmd = [c for c in cmd if c != "--exact"] + flags
    rc, out, _ = run(cmd, cwd=sc.path(pkg), timeout=tmo + 900)
    tests = [t for t in _PB.findall(out) if "concrete_playback_run" in t and ob.harness in t]
    ob.counterexample = None
    if not tests:
        ob.replay = {"kind": "kani", "confirmed": False, "note": "kani printed no concrete playback values",
                     "tests": []}
        return
    tests = tests[:3]
    hfile = None
    for inj in ob.unit["cfg"].get("inject", []):
        if ob.harness in open(inj["_scratch_harness"]).read():
            hfile = inj["_scratch_harness"]
    ob.replay = {"kind": "kani", "tests": tests, "confirmed": False}
    if hfile is None:
        return
    confirmed, pout = playback_tests(sc, pkg, hfile, tests)
    ob.replay["confirmed"] = confirmed
    ob.replay["playback_output"] = pout[-3000:]
    ob.counterexample = tests[0]


def playback_tests(sc, pkg, hfile, tests):
    with open(hfile, "a") as f:
        f.write("\n" + "\n".join(tests) + "\n")
    rc, out, _ = run(["cargo", "kani", "playback", "-Z", "concrete-playback", "--lib", "--", "kani_concrete_playback"],
                     cwd=sc.path(pkg), env={"CARGO_TARGET_DIR": sc.target}, timeout=3600)
    out = _filter(out)
    failed = re.search(r"test result: FAILED", out) is not None and "panicked" in out
    return failed, out
