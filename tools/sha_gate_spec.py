"""Shared specification helpers for the SHA-2 chip gate contracts (PolyVC units c07_sha256_gates,
c07_sha512_gates).  Everything here is derived from FIPS 180-4 rotation amounts and the limb layout a
gate is named after -- never from the exponent tables in the code."""
import re

import sympy as sp

from polyvc import Env, Struct, Tuple, Unsupported, std_field_env


def make_env(ncols=8):
    env = Env()
    std_field_env(env, base_names=("F",))
    env.calls[("Rotation",)] = lambda en, a: a[0]
    env.calls[("Rotation", "cur")] = lambda en, a: sp.Integer(0)
    env.calls[("Rotation", "next")] = lambda en, a: sp.Integer(1)
    env.calls[("Rotation", "prev")] = lambda en, a: sp.Integer(-1)
    env.calls[("Expression", "from")] = lambda en, a: a[0]

    def query_advice(en, r, a):
        col, rot = a
        if not (isinstance(col, Struct) and col.ty == "Col"):
            raise Unsupported("query_advice on a non-column")
        return sp.Symbol("a%d_%s" % (int(col.fields["i"]), str(int(rot)).replace("-", "m")))
    env.methods[("Meta", "query_advice")] = query_advice

    def query_fixed(en, r, a):
        col, rot = a
        if not (isinstance(col, Struct) and col.ty == "FixedCol"):
            raise Unsupported("query_fixed on a non-fixed column")
        return sp.Symbol("f%d_%s" % (int(col.fields["i"]), str(int(rot)).replace("-", "m")))
    env.methods[("Meta", "query_fixed")] = query_fixed
    env.calls[("Expression", "Constant")] = lambda en, a: a[0]
    env.calls[("u128_to_fe",)] = lambda en, a: a[0]
    env.calls[("u64_to_fe",)] = lambda en, a: a[0]

    def ip(base):
        def f(en, a):
            es, ts = a
            if not (isinstance(es, Tuple) and isinstance(ts, Tuple) and len(es.items) == len(ts.items)):
                raise Unsupported("expr_pow_ip arguments")
            return sum((sp.Integer(base) ** int(e)) * t for e, t in zip(es.items, ts.items))
        return f
    env.calls[("expr_pow2_ip",)] = ip(2)
    env.calls[("expr_pow4_ip",)] = ip(4)
    env.calls[("Constraints", "with_selector")] = lambda en, a: Struct("Constraints", {"selector": a[0], "polys": a[1]})
    return env


def gate_inputs(selector, ncols=8):
    def f():
        cols = Tuple([Struct("Col", {"i": sp.Integer(i)}) for i in range(ncols)])
        fixed = Tuple([Struct("FixedCol", {"i": sp.Integer(i)}) for i in range(8)])
        return {"advice_cols": cols, "fixed_cols": fixed, "meta": Struct("Meta", {}), selector: Struct("Selector", {"name": selector})}
    return f


def polys_of(out, selector):
    if not (isinstance(out, Struct) and out.ty == "Constraints"):
        raise Unsupported("gate closure does not end in Constraints::with_selector")
    if out.fields["selector"].fields.get("name") != selector:
        raise Unsupported("unexpected selector")
    return [t.items[1] for t in out.fields["polys"].items]


def need(loc, names):
    miss = [n for n in names if n not in loc]
    if miss:
        raise Unsupported("gate closure no longer binds the cell roles %s" % miss)
    return [loc[n] for n in names]


class Word:
    def __init__(self, bits):
        self.bits = bits

    def offsets(self, lengths):
        lo, acc = [], 0
        for l in reversed(lengths):
            lo.append(acc)
            acc += l
        assert acc == self.bits, "limb lengths do not sum to the word size"
        return list(reversed(lo))

    def weighted(self, lengths, cells, base):
        return sum(sp.Integer(base) ** o * c for o, c in zip(self.offsets(lengths), cells))

    def rotr(self, lengths, cells, r, base=4):
        tot = 0
        for l, o, c in zip(lengths, self.offsets(lengths), cells):
            n = (o - r) % self.bits
            assert n + l <= self.bits, "limb would be split by ROTR %d" % r
            tot += sp.Integer(base) ** n * c
        return tot

    def shr(self, lengths, cells, r, base=4):
        tot = 0
        for l, o, c in zip(lengths, self.offsets(lengths), cells):
            if o >= r:
                tot += sp.Integer(base) ** (o - r) * c
            else:
                assert o + l <= r, "limb would be split by SHR %d" % r
        return tot


def same_ideal(selector, spec_fn):
    """goals: every spec poly in <gate polys>; converse: every gate poly in <spec polys>"""
    def goals(env, out, loc):
        I = polys_of(out, selector)
        spec = spec_fn(loc)
        env.hyps += I
        env.completeness = []
        env.converse = [("nothing_else.constraint_%d" % i, p, spec) for i, p in enumerate(I)]
        return [("spec_%d_enforced" % i, s) for i, s in enumerate(spec)]
    return goals


def gate(item, name, selector, spec_fn, clause, ncols=8):
    return {"item": item, "closure": r'meta\.create_gate\(\s*"%s"\s*,\s*\|meta\|\s*\{' % re.escape(name),
            "inputs": gate_inputs(selector, ncols), "hyps": lambda loc: [], "goals": same_ideal(selector, spec_fn), "clause": clause}
