//! Witness search / replay on the REAL code (path dependency on the scratch copy of /repo).
//! Used when a Verus / PolyVC obligation fails: those verifiers give no counterexample, so this
//! program drives the real functions on the boundary set of the property plus seeded random inputs
//! against an independent oracle (num-bigint integers, or the affine group law evaluated in the base
//! field) and prints one JSON line per failing case:
//!   {"key": "<obligation key>", "case": "...", "got": "...", "expected": "..."}
//! usage: verif_witness <mode> <seed> <rounds>
use std::env;

use ff::{Field, PrimeField};
use group::{Curve, Group};
use midnight_curves::{CurveExt, Fq, Fr, G1Affine, G1Projective, G2Affine, G2Projective, JubjubAffine, JubjubExtended, JubjubSubgroup};
use num_bigint::BigUint;
use rand_core::RngCore;
use subtle::ConstantTimeEq;

struct Rng(u64);
impl RngCore for Rng {
    fn next_u32(&mut self) -> u32 {
        (self.next_u64() >> 32) as u32
    }
    fn next_u64(&mut self) -> u64 {
        // splitmix64
        self.0 = self.0.wrapping_add(0x9e37_79b9_7f4a_7c15);
        let mut z = self.0;
        z = (z ^ (z >> 30)).wrapping_mul(0xbf58_476d_1ce4_e5b9);
        z = (z ^ (z >> 27)).wrapping_mul(0x94d0_49bb_1331_11eb);
        z ^ (z >> 31)
    }
    fn fill_bytes(&mut self, dest: &mut [u8]) {
        for c in dest.chunks_mut(8) {
            let v = self.next_u64().to_le_bytes();
            c.copy_from_slice(&v[..c.len()]);
        }
    }
    fn try_fill_bytes(&mut self, dest: &mut [u8]) -> Result<(), rand_core::Error> {
        self.fill_bytes(dest);
        Ok(())
    }
}

fn report(key: &str, case: &str, got: String, expected: String) {
    println!(
        "{{\"key\": \"{}\", \"case\": \"{}\", \"got\": \"{}\", \"expected\": \"{}\"}}",
        key,
        case.replace('"', "'"),
        got.replace('"', "'"),
        expected.replace('"', "'")
    );
}

// ------------------------------------------------------------------ C10: Jubjub Fr vs big integers
fn fr_modulus() -> BigUint {
    BigUint::parse_bytes(b"0e7db4ea6533afa906673b0101343b00a6682093ccc81082d0970e5ed6f72cb7", 16).unwrap()
}
fn fr_val(x: &Fr) -> BigUint {
    BigUint::from_bytes_le(&x.to_bytes())
}
fn fr_of(v: &BigUint) -> Fr {
    let mut b = [0u8; 64];
    let bytes = v.to_bytes_le();
    b[..bytes.len()].copy_from_slice(&bytes);
    Fr::from_bytes_wide(&b)
}
fn raw4(v: &BigUint) -> [u64; 4] {
    let mut l = [0u64; 4];
    for (i, d) in v.to_u64_digits().iter().enumerate().take(4) {
        l[i] = *d;
    }
    l
}

fn c10_fr(rng: &mut Rng, rounds: usize) {
    let q = fr_modulus();
    let one = BigUint::from(1u8);
    let two = BigUint::from(2u8);
    let mut vals: Vec<BigUint> = vec![
        BigUint::from(0u8),
        one.clone(),
        &q - &one,
        &q - &two,
        (&q - &one) / &two,
        (&q + &one) / &two,
        (BigUint::from(1u8) << 64usize) - &one,
        BigUint::from(1u8) << 64usize,
        (BigUint::from(1u8) << 128usize) + &one,
        (BigUint::from(1u8) << 192usize) - &one,
        (BigUint::from(1u8) << 251usize),
        (BigUint::from(1u8) << 256usize) % &q,
        ((BigUint::from(1u8) << 256usize) % &q).pow(2) % &q,
    ];
    // values whose MONTGOMERY representation (v * 2^256 mod q) has special limb patterns: a single
    // non-zero limb, zero low limbs, all-ones limbs.  v = pattern * R^-1 mod q.
    let rinv = (BigUint::from(1u8) << 256usize).modpow(&(&q - &two), &q);
    for pos in 0..4usize {
        for k in [1u64, 2, 0x8000_0000_0000_0000, u64::MAX, 0x0e7d_b4ea_6533_afa8] {
            let pat = BigUint::from(k) << (64 * pos);
            if pat < q {
                vals.push((&pat * &rinv) % &q);
            }
        }
    }
    vals.push(((BigUint::from(u64::MAX) << 64usize) + BigUint::from(u64::MAX)) * &rinv % &q);
    vals.push((((BigUint::from(1u8) << 192usize) - &one) * &rinv) % &q);
    for _ in 0..rounds {
        let mut b = [0u8; 64];
        rng.fill_bytes(&mut b);
        vals.push(BigUint::from_bytes_le(&b) % &q);
    }
    for a in &vals {
        let fa = Fr::from_raw(raw4(a));
        if fr_val(&fa) != *a {
            report("from_raw", &format!("a={a:x}"), format!("{:x}", fr_val(&fa)), format!("{a:x}"));
        }
        if fr_val(&fr_of(a)) != *a {
            report("from_u512", &format!("a={a:x}"), format!("{:x}", fr_val(&fr_of(a))), format!("{a:x}"));
        }
        let e = (&q - a) % &q;
        if fr_val(&fa.neg()) != e {
            report("neg", &format!("a={a:x}"), format!("{:x}", fr_val(&fa.neg())), format!("{e:x}"));
        }
        let e = (a * 2u8) % &q;
        if fr_val(&fa.double()) != e {
            report("double", &format!("a={a:x}"), format!("{:x}", fr_val(&fa.double())), format!("{e:x}"));
        }
        let e = (a * a) % &q;
        if fr_val(&fa.square()) != e {
            report("square", &format!("a={a:x}"), format!("{:x}", fr_val(&fa.square())), format!("{e:x}"));
        }
        let mut bytes = [0u8; 32];
        let ab = a.to_bytes_le();
        bytes[..ab.len()].copy_from_slice(&ab);
        match Option::<Fr>::from(Fr::from_bytes(&bytes)) {
            Some(x) if fr_val(&x) == *a => {}
            other => report("from_bytes", &format!("a={a:x}"), format!("{:?}", other.map(|x| fr_val(&x))), format!("Some({a:x})")),
        }
        // non-canonical encodings a + q must be rejected
        let nc = a + &q;
        if nc.bits() <= 256 {
            let mut bytes = [0u8; 32];
            let nb = nc.to_bytes_le();
            bytes[..nb.len()].copy_from_slice(&nb);
            if bool::from(Fr::from_bytes(&bytes).is_some()) {
                report("from_bytes", &format!("non-canonical a+q, a={a:x}"), "Some".into(), "None".into());
            }
        }
        for b in &vals {
            let fb = Fr::from_raw(raw4(b));
            let e = (a + b) % &q;
            if fr_val(&fa.add(&fb)) != e {
                report("add", &format!("a={a:x} b={b:x}"), format!("{:x}", fr_val(&fa.add(&fb))), format!("{e:x}"));
            }
            let e = (a + &q - b) % &q;
            if fr_val(&fa.sub_ref(&fb)) != e {
                report("sub_ref", &format!("a={a:x} b={b:x}"), format!("{:x}", fr_val(&fa.sub_ref(&fb))), format!("{e:x}"));
            }
            let e = (a * b) % &q;
            if fr_val(&fa.mul_ref(&fb)) != e {
                report("mul_ref", &format!("a={a:x} b={b:x}"), format!("{:x}", fr_val(&fa.mul_ref(&fb))), format!("{e:x}"));
            }
        }
    }
    // published constants
    if fr_val(&Fr::one()) != one {
        report("one", "Fr::one()", format!("{:x}", fr_val(&Fr::one())), "1".into());
    }
    if fr_val(&(Fr::TWO_INV.double())) != one {
        report("constants", "2*TWO_INV", format!("{:x}", fr_val(&Fr::TWO_INV.double())), "1".into());
    }
    if fr_val(&Fr::ROOT_OF_UNITY.pow_vartime(&[1u64 << Fr::S, 0, 0, 0])) != one {
        report("constants", "ROOT_OF_UNITY^(2^S)", "!=1".into(), "1".into());
    }
    if Fr::DELTA != Fr::MULTIPLICATIVE_GENERATOR.pow_vartime(&[1u64 << Fr::S, 0, 0, 0]) {
        report("constants", "DELTA", "!= GENERATOR^(2^S)".into(), "GENERATOR^(2^S)".into());
    }
}

// ------------------------------------------------------------------ C10: curve25519 Fp vs big integers
fn c10_c25519(rng: &mut Rng, rounds: usize) {
    use midnight_curves::curve25519::Fp as F25;
    let p = (BigUint::from(1u8) << 255usize) - BigUint::from(19u8);
    let one = BigUint::from(1u8);
    let val = |x: &F25| BigUint::from_bytes_le(&x.to_bytes());
    let enc = |v: &BigUint| {
        let mut b = [0u8; 32];
        let vb = v.to_bytes_le();
        b[..vb.len()].copy_from_slice(&vb);
        b
    };
    let mut vals: Vec<BigUint> = vec![
        BigUint::from(0u8), one.clone(), BigUint::from(2u8), &p - &one, &p - BigUint::from(2u8), (&p - &one) / 2u8, (&p + &one) / 2u8,
        (BigUint::from(1u8) << 64usize) - &one, BigUint::from(1u8) << 64usize, (BigUint::from(1u8) << 192usize) - &one,
        BigUint::from(1u8) << 254usize, BigUint::from(19u8), BigUint::from(38u8),
    ];
    for _ in 0..rounds {
        let mut b = [0u8; 40];
        rng.fill_bytes(&mut b);
        vals.push(BigUint::from_bytes_le(&b) % &p);
    }
    // checked decoder: canonical values accepted and round-trip; every v >= p below 2^256 rejected
    for v in &vals {
        match Option::<F25>::from(F25::from_bytes(&enc(v))) {
            Some(x) if val(&x) == *v => {}
            other => report("from_bytes", &format!("v={v:x}"), format!("{:?}", other.map(|x| val(&x))), format!("Some({v:x})")),
        }
    }
    let two256 = BigUint::from(1u8) << 256usize;
    for nc in [p.clone(), &p + &one, &p + BigUint::from(18u8), &p + BigUint::from(19u8), (BigUint::from(1u8) << 255usize) + &one, &two256 - &one] {
        if nc < two256 && bool::from(F25::from_bytes(&enc(&nc)).is_some()) {
            report("from_bytes", &format!("non-canonical v={nc:x}"), "Some".into(), "None".into());
        }
    }
    for a in &vals {
        let fa: F25 = Option::from(F25::from_bytes(&enc(a))).unwrap_or(F25::zero());
        let e = (&p - a) % &p;
        if val(&fa.neg()) != e {
            report("neg", &format!("a={a:x}"), format!("{:x}", val(&fa.neg())), format!("{e:x}"));
        }
        let e = (a * a) % &p;
        if val(&fa.square()) != e {
            report("square", &format!("a={a:x}"), format!("{:x}", val(&fa.square())), format!("{e:x}"));
        }
        let e = (a * 2u8) % &p;
        if val(&fa.double()) != e {
            report("double", &format!("a={a:x}"), format!("{:x}", val(&fa.double())), format!("{e:x}"));
        }
        for b in &vals {
            let fb: F25 = Option::from(F25::from_bytes(&enc(b))).unwrap_or(F25::zero());
            let e = (a + b) % &p;
            if val(&fa.add(&fb)) != e {
                report("add", &format!("a={a:x} b={b:x}"), format!("{:x}", val(&fa.add(&fb))), format!("{e:x}"));
            }
            let e = (a + &p - b) % &p;
            if val(&fa.sub(&fb)) != e {
                report("sub", &format!("a={a:x} b={b:x}"), format!("{:x}", val(&fa.sub(&fb))), format!("{e:x}"));
            }
            let e = (a * b) % &p;
            if val(&fa.mul(&fb)) != e {
                report("mul", &format!("a={a:x} b={b:x}"), format!("{:x}", val(&fa.mul(&fb))), format!("{e:x}"));
            }
        }
    }
}

// ------------------------------------------------------------------ C11: Jubjub vs the affine law
fn edwards_d() -> Fq {
    -(Fq::from(10240u64) * Fq::from(10241u64).invert().unwrap())
}
fn aff_add(a: (Fq, Fq), b: (Fq, Fq)) -> (Fq, Fq) {
    let d = edwards_d();
    let t = d * a.0 * b.0 * a.1 * b.1;
    (
        (a.0 * b.1 + a.1 * b.0) * (Fq::ONE + t).invert().unwrap(),
        (a.1 * b.1 + a.0 * b.0) * (Fq::ONE - t).invert().unwrap(),
    )
}
fn uv(p: &JubjubExtended) -> (Fq, Fq) {
    let a = JubjubAffine::from(p);
    (a.get_u(), a.get_v())
}
fn neg(a: (Fq, Fq)) -> (Fq, Fq) {
    (-a.0, a.1)
}

fn c11_jubjub(rng: &mut Rng, rounds: usize) {
    let g = JubjubExtended::from(JubjubSubgroup::generator());
    let mut pts: Vec<JubjubExtended> = vec![JubjubExtended::identity(), g, g.double(), -g];
    // a point of order 2 and points outside the prime-order subgroup via the unchecked constructor
    pts.push(JubjubExtended::from(JubjubAffine::from_raw_unchecked(Fq::ZERO, -Fq::ONE)));
    for _ in 0..rounds {
        let s = Fr::random(&mut *rng);
        let p = g * s;
        pts.push(p);
        // a different representative of the same point (Z != 1 after arithmetic)
        pts.push(p + JubjubExtended::identity());
    }
    let chk = |key: &str, case: String, got: (Fq, Fq), exp: (Fq, Fq)| {
        if got != exp {
            report(key, &case, format!("{:?}", got), format!("{:?}", exp));
        }
    };
    for (i, p) in pts.iter().enumerate() {
        let a = uv(p);
        chk("JubjubExtended_double", format!("P#{i}={:?}", a), uv(&p.double()), aff_add(a, a));
        chk("Neg_for_JubjubExtended", format!("P#{i}={:?}", a), uv(&-*p), neg(a));
        let pa = JubjubAffine::from(p);
        chk("JubjubAffine_to_extended", format!("P#{i}"), uv(&pa.to_extended()), a);
        chk("From_JubjubAffine_for_JubjubExtended", format!("P#{i}"), uv(&JubjubExtended::from(pa)), a);
        if bool::from(p.is_identity()) != (a == (Fq::ZERO, Fq::ONE)) {
            report("JubjubExtended_is_identity", &format!("P#{i}={:?}", a), format!("{}", bool::from(p.is_identity())), format!("{}", a == (Fq::ZERO, Fq::ONE)));
        }
        let mut e8 = a;
        for _ in 0..3 {
            e8 = aff_add(e8, e8);
        }
        chk("JubjubExtended_mul_by_cofactor", format!("P#{i}"), uv(&p.mul_by_cofactor()), e8);
        for (j, q) in pts.iter().enumerate() {
            let b = uv(q);
            let qa = JubjubAffine::from(q);
            let case = format!("P#{i}={:?} Q#{j}={:?}", a, b);
            chk("Add_JubjubExtended_for_JubjubExtended", case.clone(), uv(&(p + q)), aff_add(a, b));
            chk("Sub_JubjubExtended_for_JubjubExtended", case.clone(), uv(&(p - q)), aff_add(a, neg(b)));
            chk("Add_ExtendedNielsPoint_for_JubjubExtended", case.clone(), uv(&(p + &q.to_niels())), aff_add(a, b));
            chk("Sub_ExtendedNielsPoint_for_JubjubExtended", case.clone(), uv(&(p - &q.to_niels())), aff_add(a, neg(b)));
            chk("Add_JubjubAffineNiels_for_JubjubExtended", case.clone(), uv(&(p + &qa.to_niels())), aff_add(a, b));
            chk("Sub_JubjubAffineNiels_for_JubjubExtended", case.clone(), uv(&(p - &qa.to_niels())), aff_add(a, neg(b)));
            chk("Add_JubjubAffine_for_JubjubExtended", case.clone(), uv(&(p + &qa)), aff_add(a, b));
            chk("Sub_JubjubAffine_for_JubjubExtended", case.clone(), uv(&(p - &qa)), aff_add(a, neg(b)));
            chk("Add_JubjubAffine_for_JubjubAffine", case.clone(), uv(&(&pa + &qa)), aff_add(a, b));
            chk("Sub_JubjubAffine_for_JubjubAffine", case.clone(), uv(&(&pa - &qa)), aff_add(a, neg(b)));
            if bool::from(p.ct_eq(q)) != (a == b) {
                report("ConstantTimeEq_for_JubjubExtended", &case, format!("{}", bool::from(p.ct_eq(q))), format!("{}", a == b));
            }
        }
    }
}

// ------------------------------------------------------------------ C11: G1 / G2 coordinate functions
macro_rules! bls_coords {
    ($fname:ident, $proj:ty, $aff:ty, $base:ty, $tag:expr) => {
        fn $fname(rng: &mut Rng, rounds: usize) {
            let g = <$proj>::generator();
            let mut pts: Vec<$proj> = vec![g, g + g, g + g + g];
            for _ in 0..rounds {
                pts.push(g * Fq::random(&mut *rng));
            }
            for (i, p) in pts.iter().enumerate() {
                let a: $aff = p.to_affine();
                let (ax, ay) = (a.x(), a.y());
                // accessor: (X, Y, Z) must be Jacobian coordinates of p:  X = x Z^2, Y = y Z^3
                let (x, y, z) = p.jacobian_coordinates();
                if x != ax * z.square() || y != ay * z.square() * z {
                    report(&format!("{}_jacobian_coordinates", $tag), &format!("P#{i} (z==1: {})", z == <$base>::ONE),
                        "X != x*Z^2 or Y != y*Z^3".into(), "Jacobian coordinates of the affine point".into());
                }
                // constructor: a rescaled Jacobian representative (lambda^2 x, lambda^3 y, lambda) of p
                let l = <$base>::random(&mut *rng);
                let (jx, jy, jz) = (ax * l.square(), ay * l.square() * l, l);
                match Option::<$proj>::from(<$proj>::new_jacobian(jx, jy, jz)) {
                    Some(r) if r == *p => {}
                    Some(_) => report(&format!("{}_new_jacobian", $tag), &format!("P#{i}, Z=lambda"), "a different point".into(), "P".into()),
                    None => report(&format!("{}_new_jacobian", $tag), &format!("P#{i}, Z=lambda"), "None".into(), "Some(P)".into()),
                }
                // equality must not depend on the representative
                for (j, q) in pts.iter().enumerate() {
                    let same = p.to_affine() == q.to_affine();
                    if bool::from(p.ct_eq(q)) != same {
                        report(&format!("ConstantTimeEq_for_{}", $tag), &format!("P#{i} Q#{j}"), format!("{}", bool::from(p.ct_eq(q))), format!("{}", same));
                    }
                }
                // same point, different representative: (P + G) - G
                let q = (*p + g) - g;
                if bool::from(p.ct_eq(&q)) != (p.to_affine() == q.to_affine()) {
                    report(&format!("ConstantTimeEq_for_{}", $tag), &format!("P#{i} vs (P+G)-G"), format!("{}", bool::from(p.ct_eq(&q))), "true".into());
                }
            }
        }
    };
}
bls_coords!(c11_g1, G1Projective, G1Affine, midnight_curves::Fp, "G1Projective");
bls_coords!(c11_g2, G2Projective, G2Affine, midnight_curves::bls12_381::Fp2, "G2Projective");

fn main() {
    let args: Vec<String> = env::args().collect();
    let mode = args.get(1).map(|s| s.as_str()).unwrap_or("");
    let seed: u64 = args.get(2).and_then(|s| s.parse().ok()).unwrap_or(0);
    let rounds: usize = args.get(3).and_then(|s| s.parse().ok()).unwrap_or(8);
    let mut rng = Rng(seed ^ 0x5eed);
    match mode {
        "c10_jubjub_fr" => c10_fr(&mut rng, rounds),
        "c11_jubjub" => c11_jubjub(&mut rng, rounds),
        "c10_c25519_fp" => c10_c25519(&mut rng, rounds),
        "c10_sum" => {
            // batched variants over borrowed items (impl_sum! / impl_product!)
            let v = [Fr::one(), Fr::one().double(), Fr::random(&mut rng)];
            let s: Fr = v.iter().sum();
            if s != v[0].add(&v[1]).add(&v[2]) {
                report("sum_of_refs", "Fr", format!("{:?}", s), "fold of add".into());
            }
            let p: Fr = v.iter().product();
            if p != v[0].mul_ref(&v[1]).mul_ref(&v[2]) {
                report("sum_of_refs", "Fr product", format!("{:?}", p), "fold of mul".into());
            }
        }
        "c11_bls" => {
            c11_g1(&mut rng, rounds);
            c11_g2(&mut rng, rounds);
        }
        _ => {
            eprintln!("unknown mode");
            std::process::exit(2)
        }
    }
    println!("{{\"done\": \"{}\"}}", mode);
}
