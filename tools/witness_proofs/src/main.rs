//! Witness search on the REAL midnight-proofs crate (built from the current working tree): looks for a
//! concrete failing input when a contract of the chunking units fails.  Not a deciding step.
//!
//! mode c12_chunks: `parallelize` must hand every worker the global index of its chunk's first element
//! and touch every element exactly once; `eval_polynomial` must equal Horner evaluation -- in rayon pools
//! of 1, 2, 3, 5, 7, 8 and 16 threads, for every length 0..=70.
use std::env;

use ff::Field;
use midnight_curves::Fq;
use midnight_proofs::utils::arithmetic::{eval_polynomial, parallelize};

fn report(key: &str, case: String, got: String, expected: &str) {
    println!("{{\"key\": \"{}\", \"case\": \"{}\", \"got\": \"{}\", \"expected\": \"{}\"}}", key, case, got, expected);
}

fn in_pool<R: Send>(threads: usize, f: impl FnOnce() -> R + Send) -> R {
    rayon::ThreadPoolBuilder::new().num_threads(threads).build().unwrap().install(f)
}

mod two;
mod vk;

fn main() {
    let args: Vec<String> = env::args().collect();
    let mode = args.get(1).map(|s| s.as_str()).unwrap_or("");
    if mode == "c01_two_proofs" {
        two::run(&|k, case, got, want| report(k, case, got, want));
        println!("{{\"done\": \"{}\"}}", mode);
        return;
    }
    if mode == "c12_msm" {
        // msm_parallel / msm_best against the naive sum, in rayon pools of several sizes
        use group::{Curve, Group};
        use midnight_curves::{msm::{msm_best, msm_parallel}, G1Projective};
        let mut fails = 0;
        for threads in [1usize, 2, 3, 5, 8, 16] {
            for len in 1..=48usize {
                let bases: Vec<_> = (0..len).map(|i| (G1Projective::generator() * Fq::from(7 + i as u64)).to_affine()).collect();
                let coeffs: Vec<Fq> = (0..len).map(|i| Fq::from(1000 + 13 * i as u64)).collect();
                let want = bases.iter().zip(coeffs.iter()).fold(G1Projective::identity(), |a, (b, c)| a + *b * *c);
                let (gp, gb) = in_pool(threads, || (msm_parallel(&coeffs, &bases), msm_best(&coeffs, &bases)));
                if gp != want || gb != want {
                    if fails < 4 {
                        report("msm_parallel", format!("msm_parallel / msm_best on {len} BLS12-381 G1 terms in a pool of {threads} threads"), "differs from the naive sum".into(), "the naive sum");
                    }
                    fails += 1;
                }
            }
        }
        println!("{{\"done\": \"{}\"}}", mode);
        return;
    }
    if mode == "c16_vk" {
        vk::run(&|k, case, got, want| report(k, case, got, want));
        println!("{{\"done\": \"{}\"}}", mode);
        return;
    }
    if mode != "c12_chunks" {
        eprintln!("unknown mode");
        std::process::exit(2)
    }
    let mut par_fail = 0;
    let mut eval_fail = 0;
    for threads in [1usize, 2, 3, 5, 7, 8, 16] {
        for len in 0..=70usize {
            let mut v = vec![usize::MAX; len];
            in_pool(threads, || {
                parallelize(&mut v, |chunk, start| {
                    for (i, x) in chunk.iter_mut().enumerate() {
                        *x = if *x == usize::MAX { start + i } else { usize::MAX - 1 };
                    }
                })
            });
            if let Some(k) = (0..len).find(|&k| v[k] != k) {
                if par_fail < 3 {
                    report("parallelize", format!("parallelize on a slice of length {len} in a pool of {threads} threads: element {k}"), format!("index reported {}", v[k]), "its own index");
                }
                par_fail += 1;
            }
            let poly: Vec<Fq> = (0..len).map(|i| Fq::from(3 + 7 * i as u64)).collect();
            let x = Fq::from(5);
            let got = in_pool(threads, || eval_polynomial(&poly, x));
            let want = poly.iter().rev().fold(Fq::ZERO, |acc, c| acc * x + c);
            if got != want {
                if eval_fail < 3 {
                    report("eval_polynomial", format!("eval_polynomial of a polynomial with {len} coefficients in a pool of {threads} threads"), "differs from Horner evaluation".into(), "Horner evaluation");
                }
                eval_fail += 1;
            }
        }
    }
    println!("{{\"done\": \"{}\"}}", mode);
}
