//! mode c01_two_proofs: the REAL prover and verifier (KZG over BLS12-381, k = 4) on TWO proofs of a circuit
//! with one committed and one plain instance column: an honest proof must verify.
use std::panic;

use blake2b_simd::State;
use ff::Field;
use midnight_curves::{Bls12, Fq as Scalar};
use midnight_proofs::{
    circuit::{Layouter, SimpleFloorPlanner, Value},
    plonk::{create_proof, keygen_pk, keygen_vk_with_k, prepare, Advice, Circuit, Column, ConstraintSystem, Constraints, Error, Fixed, Instance},
    poly::{
        commitment::{Guard, PolynomialCommitmentScheme},
        kzg::{params::ParamsKZG, KZGCommitmentScheme},
        Rotation,
    },
    transcript::{CircuitTranscript, Transcript},
};
use rand_core::OsRng;

#[derive(Clone, Copy)]
struct Cfg {
    a: Column<Advice>,
    q: Column<Fixed>,
    #[allow(dead_code)]
    i0: Column<Instance>,
    #[allow(dead_code)]
    i1: Column<Instance>,
}

/// q * (a - i0 - i1) = 0, q = 1 on row 0
#[derive(Clone, Default)]
struct SumCircuit(Scalar, Scalar);

impl Circuit<Scalar> for SumCircuit {
    type Config = Cfg;
    type FloorPlanner = SimpleFloorPlanner;

    fn without_witnesses(&self) -> Self {
        Self::default()
    }
    fn configure(meta: &mut ConstraintSystem<Scalar>) -> Cfg {
        let a = meta.advice_column();
        let q = meta.fixed_column();
        let i0 = meta.instance_column();
        let i1 = meta.instance_column();
        meta.create_gate("a = i0 + i1", |meta| {
            let a = meta.query_advice(a, Rotation::cur());
            let q = meta.query_fixed(q, Rotation::cur());
            let i0 = meta.query_instance(i0, Rotation::cur());
            let i1 = meta.query_instance(i1, Rotation::cur());
            Constraints::without_selector(vec![("sum", q * (a - i0 - i1))])
        });
        Cfg { a, q, i0, i1 }
    }
    fn synthesize(&self, config: Cfg, mut layouter: impl Layouter<Scalar>) -> Result<(), Error> {
        layouter.assign_region(
            || "",
            |mut region| {
                region.assign_advice(|| "", config.a, 0, || Value::known(self.0 + self.1))?;
                region.assign_fixed(|| "", config.q, 0, || Value::known(Scalar::ONE))?;
                Ok(())
            },
        )
    }
}

type Cs = KZGCommitmentScheme<Bls12>;

fn honest_run(nb_proofs: usize, nb_committed: usize) -> Result<bool, String> {
    let k = 4;
    let params = ParamsKZG::<Bls12>::unsafe_setup(k, OsRng);
    let circuits: Vec<SumCircuit> = (0..nb_proofs).map(|_| SumCircuit(Scalar::random(OsRng), Scalar::random(OsRng))).collect();
    let vk = keygen_vk_with_k::<_, Cs, _>(&params, &circuits[0], k).map_err(|e| format!("{e:?}"))?;
    let pk = keygen_pk(vk.clone(), &circuits[0]).map_err(|e| format!("{e:?}"))?;
    let cols: Vec<[Vec<Scalar>; 2]> = circuits.iter().map(|c| [vec![c.0], vec![c.1]]).collect();
    let per_proof: Vec<Vec<&[Scalar]>> = cols.iter().map(|c| vec![&c[0][..], &c[1][..]]).collect();
    let all: Vec<&[&[Scalar]]> = per_proof.iter().map(|v| &v[..]).collect();
    let mut transcript = CircuitTranscript::<State>::init();
    create_proof::<Scalar, Cs, _, _>(&params, &pk, &circuits, nb_committed, &all, OsRng, &mut transcript).map_err(|e| format!("prover: {e:?}"))?;
    let proof = transcript.finalize();

    // verifier side: commitments of the committed columns, values of the plain ones
    let commit = |col: &Vec<Scalar>| {
        let mut poly = vk.get_domain().empty_lagrange();
        for (p, v) in poly.iter_mut().zip(col.iter()) {
            *p = *v;
        }
        Cs::commit_lagrange(&params, &poly)
    };
    let committed: Vec<Vec<_>> = cols.iter().map(|c| c[..nb_committed].iter().map(commit).collect()).collect();
    let committed_refs: Vec<&[_]> = committed.iter().map(|v| &v[..]).collect();
    let plain: Vec<Vec<&[Scalar]>> = cols.iter().map(|c| c[nb_committed..].iter().map(|v| &v[..]).collect()).collect();
    let plain_refs: Vec<&[&[Scalar]]> = plain.iter().map(|v| &v[..]).collect();
    let mut transcript = CircuitTranscript::<State>::init_from_bytes(&proof[..]);
    let ok = match prepare::<Scalar, Cs, _>(&vk, &committed_refs, &plain_refs, &mut transcript) {
        Ok(g) => g.verify(&params.verifier_params()).is_ok(),
        Err(_) => false,
    };
    Ok(ok)
}

pub fn run(report: &dyn Fn(&str, String, String, &str)) {
    panic::set_hook(Box::new(|_| {}));
    for (np, nc) in [(1usize, 0usize), (1, 1), (1, 2), (2, 0), (2, 1), (2, 2), (3, 1)] {
        let r = panic::catch_unwind(|| honest_run(np, nc));
        let got = match r {
            Err(_) => "panicked".to_string(),
            Ok(Err(e)) => format!("error: {e}"),
            Ok(Ok(true)) => continue,
            Ok(Ok(false)) => "honest proof REJECTED by the verifier".to_string(),
        };
        report("instance_absorption_order", format!("{np} proof(s) of a circuit with 2 instance columns, {nc} of them committed: create_proof then prepare + verify"), got, "accepted");
    }
}
