//! mode c16_vk: a REAL verifying key (standard-PLONK circuit of proofs/examples/serialization.rs, KZG over
//! BLS12-381, k = 4) is serialized, its fixed-commitment count field is rewritten (and the commitment
//! list shortened accordingly), and the bytes are decoded with VerifyingKey::read.  A key that decodes
//! although its count disagrees with the circuit is a failing input; a valid proof is then verified with
//! it under catch_unwind to show the panic.
use std::panic;

use blake2b_simd::State;
use ff::Field;
use midnight_curves::{Bls12, Fq as Scalar};
use midnight_proofs::{
    circuit::{Layouter, SimpleFloorPlanner, Value},
    plonk::{
        create_proof, keygen_pk, keygen_vk_with_k, prepare, Advice, Circuit, Column, ConstraintSystem, Constraints, Error, Fixed,
        Instance, VerifyingKey,
    },
    poly::{
        commitment::Guard,
        kzg::{params::ParamsKZG, KZGCommitmentScheme},
        Rotation,
    },
    transcript::{CircuitTranscript, Transcript},
    utils::SerdeFormat,
};
use rand_core::OsRng;

#[derive(Clone, Copy)]
struct StandardPlonkConfig {
    a: Column<Advice>,
    b: Column<Advice>,
    c: Column<Advice>,
    q_a: Column<Fixed>,
    q_b: Column<Fixed>,
    q_c: Column<Fixed>,
    q_ab: Column<Fixed>,
    constant: Column<Fixed>,
    #[allow(dead_code)]
    instance: Column<Instance>,
}

impl StandardPlonkConfig {
    fn configure(meta: &mut ConstraintSystem<Scalar>) -> Self {
        let [a, b, c] = [(); 3].map(|_| meta.advice_column());
        let [q_a, q_b, q_c, q_ab, constant] = [(); 5].map(|_| meta.fixed_column());
        let instance = meta.instance_column();
        [a, b, c].iter().for_each(|column| meta.enable_equality(*column));
        meta.create_gate("q_a·a + q_b·b + q_c·c + q_ab·a·b + constant + instance = 0", |meta| {
            let [a, b, c] = [a, b, c].map(|column| meta.query_advice(column, Rotation::cur()));
            let [q_a, q_b, q_c, q_ab, constant] = [q_a, q_b, q_c, q_ab, constant].map(|column| meta.query_fixed(column, Rotation::cur()));
            let instance = meta.query_instance(instance, Rotation::cur());
            Constraints::without_selector(vec![("Arithmetic gate", q_a * &a + q_b * &b + q_c * c + q_ab * a * b + constant + instance)])
        });
        StandardPlonkConfig { a, b, c, q_a, q_b, q_c, q_ab, constant, instance }
    }
}

#[derive(Clone, Default)]
struct StandardPlonk(Scalar);

impl Circuit<Scalar> for StandardPlonk {
    type Config = StandardPlonkConfig;
    type FloorPlanner = SimpleFloorPlanner;

    fn without_witnesses(&self) -> Self {
        Self::default()
    }
    fn configure(meta: &mut ConstraintSystem<Scalar>) -> Self::Config {
        StandardPlonkConfig::configure(meta)
    }
    fn synthesize(&self, config: Self::Config, mut layouter: impl Layouter<Scalar>) -> Result<(), Error> {
        layouter.assign_region(
            || "",
            |mut region| {
                region.assign_advice(|| "", config.a, 0, || Value::known(self.0))?;
                region.assign_fixed(|| "", config.q_a, 0, || Value::known(-Scalar::ONE))?;
                region.assign_advice(|| "", config.a, 1, || Value::known(-Scalar::from(5u64)))?;
                for (idx, column) in (1..).zip([config.q_a, config.q_b, config.q_c, config.q_ab, config.constant]) {
                    region.assign_fixed(|| "", column, 1, || Value::known(Scalar::from(idx as u64)))?;
                }
                let a = region.assign_advice(|| "", config.a, 2, || Value::known(Scalar::ONE))?;
                a.copy_advice(|| "", &mut region, config.b, 3)?;
                a.copy_advice(|| "", &mut region, config.c, 4)?;
                Ok(())
            },
        )
    }
}

type Vk = VerifyingKey<Scalar, KZGCommitmentScheme<Bls12>>;

pub fn run(report: &dyn Fn(&str, String, String, &str)) {
    panic::set_hook(Box::new(|_| {}));
    // ParamsKZG::read_custom: the 4-byte header is k; values >= 64 overflow `1 << k` (a panic under overflow checks).
    // Values 33..=63 are left out on purpose: on a tree without the guard they allocate 2^k points and abort.
    for kv in [64u32, 65, 128, 1 << 16, 1 << 31, u32::MAX] {
        for format in [SerdeFormat::RawBytes, SerdeFormat::Processed] {
            let bytes = kv.to_le_bytes().to_vec();
            let decoded = panic::catch_unwind(|| ParamsKZG::<Bls12>::read_custom(&mut &bytes[..], format).is_ok());
            match decoded {
                Err(_) => report("params_point_count", format!("ParamsKZG::read_custom on the 4 header bytes {bytes:?} (k = {kv}), {format:?}"), "decoder PANICKED".into(), "Err"),
                Ok(true) => report("params_point_count", format!("ParamsKZG::read_custom on the 4 header bytes {bytes:?} (k = {kv}), {format:?}"), "decoded Ok".into(), "Err"),
                Ok(false) => {}
            }
        }
    }
    let k = 4;
    let circuit = StandardPlonk(Scalar::random(OsRng));
    let params = ParamsKZG::<Bls12>::unsafe_setup(k, OsRng);
    let vk = keygen_vk_with_k::<_, KZGCommitmentScheme<Bls12>, _>(&params, &circuit, k).expect("vk");
    let pk = keygen_pk(vk.clone(), &circuit).expect("pk");
    let instances: &[&[Scalar]] = &[&[circuit.0]];
    let mut transcript = CircuitTranscript::<State>::init();
    create_proof::<Scalar, KZGCommitmentScheme<Bls12>, _, _>(&params, &pk, &[circuit.clone()], 0, &[instances], OsRng, &mut transcript).expect("proof");
    let proof = transcript.finalize();

    let bytes = vk.to_bytes(SerdeFormat::RawBytes);
    // header byte 1 is k: every value must be decoded to Ok or Err, never panic
    for kb in 0..=255u8 {
        let mut forged = bytes.clone();
        forged[1] = kb;
        let decoded = panic::catch_unwind(|| Vk::from_bytes::<StandardPlonk>(&forged, SerdeFormat::RawBytes).is_ok());
        if decoded.is_err() {
            report("domain_size", format!("VerifyingKey::read on an honest key whose k byte is set to {kb}"), "decoder PANICKED".into(), "Ok or Err");
        }
    }
    let n = u32::from_le_bytes(bytes[2..6].try_into().unwrap()) as usize;
    let rest = bytes.len() - 6;
    // the permutation commitments follow the fixed ones; all commitments have the same size
    let perm = vk.permutation().commitments().len();
    let csize = rest / (n + perm);
    for new_n in 0..n {
        // count field := new_n, keep the first new_n fixed commitments and the whole permutation part
        let mut forged = bytes[..2].to_vec();
        forged.extend_from_slice(&(new_n as u32).to_le_bytes());
        forged.extend_from_slice(&bytes[6..6 + new_n * csize]);
        forged.extend_from_slice(&bytes[6 + n * csize..]);
        let decoded = panic::catch_unwind(|| Vk::from_bytes::<StandardPlonk>(&forged, SerdeFormat::RawBytes));
        match decoded {
            Err(_) => report("fixed_commitment_count", format!("VerifyingKey::read on a key of a circuit with {n} fixed columns whose count field says {new_n}"), "decoder panicked".into(), "Err"),
            Ok(Err(_)) => {}
            Ok(Ok(bad)) => {
                let proof2 = proof.clone();
                let params2 = params.clone();
                let inst = circuit.0;
                let verdict = panic::catch_unwind(panic::AssertUnwindSafe(|| {
                    let mut transcript = CircuitTranscript::<State>::init_from_bytes(&proof2[..]);
                    let instances: &[&[Scalar]] = &[&[inst]];
                    match prepare::<Scalar, KZGCommitmentScheme<Bls12>, _>(&bad, &[&[]], &[instances], &mut transcript) {
                        Ok(g) => g.verify(&params2.verifier_params()).is_ok(),
                        Err(_) => false,
                    }
                }));
                let got = match verdict {
                    Err(_) => "decoded Ok; verifying a valid proof with it PANICS".to_string(),
                    Ok(b) => format!("decoded Ok; verification returned {b}"),
                };
                report("fixed_commitment_count", format!("VerifyingKey::read on a key of a circuit with {n} fixed columns whose count field says {new_n} ({new_n} commitments present)"), got, "Err (count disagrees with the circuit)");
            }
        }
    }
}
