"""Witness search / replay for Verus and PolyVC obligations: builds tools/witness as a member of a
scratch copy of /repo's workspace (so the REAL crates are compiled from the current working tree) and
runs it.  A hit is a concrete failing input of the real code."""
import json
import os
import re
import shutil

from common import VERIF, Scratch, Undecided, log, run

_cache = {}
CRASH_KEYS = {"c10_sum": "sum_of_refs"}
# witness programs: one per dependency set, so that curve-side searches do not compile the circuits crate
CRATES = {"c19_regex": ("witness_circuits", "verif_witness_circuits"),
          "c06_foreign": ("witness_circuits", "verif_witness_circuits"),
          "c05_mod_exp": ("witness_circuits", "verif_witness_circuits"),
          "c05_field_mul": ("witness_circuits", "verif_witness_circuits"),
          "c07_poseidon_varlen": ("witness_circuits", "verif_witness_circuits"),
          "c16_zkir": ("witness_zkir", "verif_witness_zkir"),
          "c12_chunks": ("witness_proofs", "verif_witness_proofs"),
          "c16_vk": ("witness_proofs", "verif_witness_proofs"),
          "c01_two_proofs": ("witness_proofs", "verif_witness_proofs"),
          "c12_msm": ("witness_proofs", "verif_witness_proofs")}


def search(mode, seed, rounds):
    """returns dict key -> list of failure records"""
    k = (mode, seed, rounds)
    if k in _cache:
        if isinstance(_cache[k], Undecided):
            raise _cache[k]
        return _cache[k]
    try:
        return _search(mode, seed, rounds, k)
    except Undecided as e:
        _cache[k] = e
        raise


def _search(mode, seed, rounds, k):
    with Scratch("witness") as sc:
        cdir, cname = CRATES.get(mode, ("witness", "verif_witness"))
        wdir = sc.path(cname)
        shutil.copytree(os.path.join(VERIF, "tools", cdir), wdir)
        ct = sc.read("Cargo.toml")
        ct2 = re.sub(r"members\s*=\s*\[", 'members = ["%s", ' % cname, ct, count=1)
        if ct2 == ct:
            raise Undecided("could not add the witness crate to the workspace")
        sc.write("Cargo.toml", ct2)
        rc, out, secs = run(["cargo", "run", "--offline", "-q", "-p", cname, "--", mode, str(seed), str(rounds)],
                            cwd=sc.src, env={"CARGO_TARGET_DIR": sc.target}, timeout=3600)
        hits = {}
        done = False
        for line in out.splitlines():
            line = line.strip()
            if line.startswith("{"):
                try:
                    rec = json.loads(line)
                except ValueError:
                    continue
                if "done" in rec:
                    done = True
                elif "key" in rec:
                    hits.setdefault(rec["key"], []).append(rec)
        if not done and "has overflowed its stack" in out:
            hits.setdefault(CRASH_KEYS.get(mode, mode), []).append({"key": CRASH_KEYS.get(mode, mode), "case": "the real code aborts: thread has overflowed its stack (unbounded recursion)",
                                                                   "got": "SIGABRT / stack overflow", "expected": "a value"})
            done = True
        if not done:
            # a panic inside the real code is itself a witness only if attributable; report as undecided
            errs = "\n".join(l for l in out.splitlines() if l.startswith("error") or "panicked" in l)[:1500]
            raise Undecided("witness program did not finish (rc=%s): %s" % (rc, errs or out[-600:]))
        _cache[k] = hits
        return hits


def attach(ob, mode, key, seed, tier):
    """Try to find a failing input for obligation `ob`; sets ob.replay."""
    rounds = 6 if tier == "quick" else 60
    try:
        hits = search(mode, seed, rounds)
    except Undecided as e:
        ob.replay = {"kind": "witness", "confirmed": False, "note": "witness search could not run: %s" % e}
        return False
    recs = hits.get(key, [])
    ob.replay = {"kind": "witness", "mode": mode, "key": key, "seed": seed, "rounds": rounds,
                 "confirmed": bool(recs), "failing_cases": recs[:5], "other_failing_keys": sorted(hits)}
    return bool(recs)


def replay(doc, rp):
    hits = search(rp["mode"], rp["seed"], rp["rounds"])
    recs = hits.get(rp["key"], [])
    for r in recs[:3]:
        log("reproduced: %s" % json.dumps(r)[:400])
    return bool(recs)
