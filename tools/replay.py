"""./check <Cxx> --replay <file>: re-execute a recorded counterexample against /repo's current
working tree.  exit 1 (+ VIOLATION line) when the failure reproduces, 0 when it does not, 2 when
the replay cannot be run."""
import json
import os

from common import UNITS, Scratch, Undecided, load_json, log


def replay(pid, path):
    doc = load_json(path)
    rp = doc.get("replay", {})
    kind = rp.get("kind")
    try:
        if kind == "kani":
            ok = _kani(doc, rp)
        elif kind == "witness":
            import witness
            ok = witness.replay(doc, rp)
        else:
            print("UNDECIDED property=%s replay file carries no executable counterexample (obligation %s; verifier output only)"
                  % (pid, doc.get("obligation")))
            return 2
    except Undecided as e:
        print("UNDECIDED property=%s replay: %s" % (pid, e))
        return 2
    if ok:
        print("VIOLATION property=%s replay=%s obligation=%s (reproduced on the current tree)" % (pid, path, doc.get("obligation")))
        return 1
    print("replay of %s: failure not reproduced on the current tree" % doc.get("obligation"))
    return 0


def _kani(doc, rp):
    import kani_run
    tests = rp.get("tests") or []
    if not tests:
        raise Undecided("no concrete playback tests recorded")
    uname = doc["unit"]
    d = os.path.join(UNITS, uname)
    u = {"name": uname, "dir": d, "cfg": load_json(os.path.join(d, "unit.json"))}
    with Scratch("replay") as sc:
        kani_run.prepare(sc, [u])
        hfile = None
        for inj in u["cfg"]["inject"]:
            if doc["harness"] in open(inj["_scratch_harness"]).read():
                hfile = inj["_scratch_harness"]
        if hfile is None:
            raise Undecided("harness %s no longer exists" % doc["harness"])
        failed, out = kani_run.playback_tests(sc, u["cfg"]["package_dir"], hfile, tests)
        log(out[-2500:])
        return failed
