#!/usr/bin/env python3
"""Regenerate /verif/MANIFEST.json from tools/props.py (claimed checks + not_applicable)."""
import json
import os
import sys

HERE = os.path.dirname(os.path.abspath(__file__))
sys.path.insert(0, HERE)
import props  # noqa: E402

ALL = ["C%02d" % i for i in range(1, 21)]
checks = []
for pid in ALL:
    if pid not in props.PROPS:
        continue
    P = props.PROPS[pid]
    checks.append({
        "property_id": pid,
        "quick_cmd": "./check %s" % pid,
        "thorough_cmd": "./check %s --tier thorough" % pid,
        "evidence_file": "evidence/%s.json" % pid,
        "replay_cmd_template": "./check %s --replay {path}" % pid,
        "engine": "+".join(k for k, v in P["units"].items() if v),
        "level_claimed": {"category": P.get("category", "proof"), "text": P["claim"], "design_ref": P.get("design_ref", "DESIGN.md section 5")},
        "level_note": P["level_note"],
        "technique": P["technique"],
    })
na = []
for pid in ALL:
    if pid in props.PROPS:
        continue
    reason = props.NOT_APPLICABLE.get(pid) or props.PENDING.get(pid)
    na.append({"property_id": pid, "reason": reason})
m = {
    "version": 1,
    "setup_cmd": "python3 tools/selftest.py",
    "hooks": {
        "guard": "cfg(kani)",
        "enable": "no hook is committed to /repo: each check copies /repo's working tree to a scratch directory and there appends `#[cfg(kani)] #[path=..] mod verif_kani_*;` lines and `#[cfg_attr(kani, kani::requires/ensures(..))]` attributes (Kani), or extracts the listed functions verbatim into a single Verus file",
        "baseline_off_cmd": "cd /repo && cargo nextest run --workspace --no-fail-fast --test-threads 8 --offline || cargo test --workspace --no-fail-fast --offline",
        "source_commits": [],
        "add_only": True,
    },
    "engines": [
        {"name": "kani", "path": "tools/kani_run.py", "serves_properties": [p for p in ALL if p in props.PROPS and props.PROPS[p]["units"].get("kani")],
         "kind_free_text": "Kani 0.68 function contracts / full-domain harnesses on the real crates (harness modules injected into a scratch copy)"},
        {"name": "verus", "path": "tools/verus_run.py", "serves_properties": [p for p in ALL if p in props.PROPS and props.PROPS[p]["units"].get("verus")],
         "kind_free_text": "Verus on functions extracted verbatim from /repo on every run, contracts spliced into signatures"},
        {"name": "polyvc", "path": "tools/polyvc_run.py", "serves_properties": [p for p in ALL if p in props.PROPS and props.PROPS[p]["units"].get("polyvc")],
         "kind_free_text": "own VC generator for straight-line field-polynomial code: symbolic execution of the extracted body, contracts as ideal-membership, exact Groebner reduction"},
    ],
    "checks": checks,
    "not_applicable": na,
    "notes": "Technique family: contract-based deductive verification of the real code. Exit 2 = undecided (lost anchor, unsupported construct, resource limit), never a VIOLATION. See DESIGN.md.",
}
with open(os.path.join(os.path.dirname(HERE), "MANIFEST.json"), "w") as f:
    json.dump(m, f, indent=1)
print("MANIFEST.json: %d checks, %d not_applicable" % (len(checks), len(na)))
