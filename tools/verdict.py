"""Turn obligation results into evidence, replay files, known-finding lines and an exit code."""
import json
import os
import re
import time

import props
from common import (DISCHARGED, EVIDENCE, FAILED, REPLAYS, UNDECIDED, VERIF, known_findings, log,
                    repo_head)

GLOBAL_ASSUMPTIONS = [
    "blst (every blst_* FFI routine: all run-time arithmetic of BLS12-381 Fq/Fp/Fp2/Fp6/Fp12, G1/G2 point routines, pairing)",
    "external crates subtle, ff, group, num-bigint, k256, curve25519-dalek, rayon",
    "rustc/LLVM code generation; little-endian x86-64; usize = 64 bits",
    "Verus 0.2026.09.13 + Z3; Kani 0.68 + CBMC 6.11 + CaDiCaL/kissat; sympy Groebner reduction (PolyVC)",
    "the extraction scanner tools/rustscan.py (a wrong extraction surfaces as a parse/type error or lost anchor -> exit 2)",
    "machine integers are modelled exactly (overflow checks on in Verus and Kani); nothing is treated as mathematical",
]


def _match_known(ob, kf):
    for f in kf.get("findings", []):
        if f["obligation"] == ob.name:
            # a finding is identified by what fails, not only by where: a DIFFERENT failure of the same obligation
            # (other detail) is still reported as a violation
            sig = f.get("detail_contains")
            if sig and sig not in ((ob.clause or "") + "\n" + (ob.detail or "")):
                continue
            return f
    return None


def write_replay(pid, ob):
    os.makedirs(REPLAYS, exist_ok=True)
    path = os.path.join(REPLAYS, "%s.%d.json" % (ob.name, int(time.time())))
    head, dirty = repo_head()
    rp = getattr(ob, "replay", None) or {"kind": ob.backend, "confirmed": False}
    if getattr(ob, "algebraic_witness", None):
        rp["algebraic_witness"] = ob.algebraic_witness
    doc = {"property": pid, "obligation": ob.name, "backend": ob.backend, "function": ob.fn,
           "clause": ob.clause, "unit": getattr(ob, "unit", {}).get("name") if isinstance(getattr(ob, "unit", None), dict) else getattr(ob, "unit_name", None),
           "harness": getattr(ob, "harness", None),
           "repo_head": head, "repo_dirty": dirty, "verifier_output": ob.detail[-6000:], "replay": rp}
    with open(path, "w") as f:
        json.dump(doc, f, indent=1)
    return path, bool(rp.get("confirmed"))


def conclude(pid, tier, seed, obls, infos, undecided_reasons, wall, write_evidence=True):
    kf = known_findings()
    P = props.PROPS[pid]
    viol, known, undec = [], [], list(undecided_reasons)
    # Verus / PolyVC give no counterexample: search for a failing input on the real code
    WITNESS_MODES = {"c10_jubjub_fr": "c10_jubjub_fr", "c11_jubjub": "c11_jubjub", "c11_bls": "c11_bls",
                     "c10_curve25519_fp": "c10_c25519_fp", "c16_zkir_routing": "c16_zkir", "c12_chunks_v": "c12_chunks", "c06_foreign_preconditions": "c06_foreign", "c16_vk_read": "c16_vk", "c12_msm_parallel_v": "c12_msm"}
    for ob in obls:
        if _match_known(ob, kf):
            # a recorded finding: no new search for a failing input (the record names one); a ledger obligation that
            # the witness had promoted when it was recorded counts as failed again
            if ob.status == UNDECIDED and re.search(r"unregistered call site", ob.detail or ""):
                ob.status = FAILED
            continue
        if ob.backend in ("verus", "polyvc") and getattr(ob, "unit_name", None) in WITNESS_MODES and not getattr(ob, "replay", None):
            resource = ob.status == UNDECIDED and re.search(r"rlimit|Resource limit|timed out|unregistered call site", ob.detail or "")
            if ob.status == FAILED or resource:
                import witness
                parts = ob.name.split(".")
                key = parts[2] if len(parts) > 2 else ob.name
                if isinstance(getattr(ob, "witness", None), str):
                    key = ob.witness
                hit = witness.attach(ob, WITNESS_MODES[ob.unit_name], key, seed, tier)
                if hit and ob.status == UNDECIDED:
                    ob.status = FAILED
                    ob.detail += "\n(promoted from undecided: the witness search found a failing input on the real code)"
                elif not hit and ob.status == FAILED and getattr(ob, "needs_witness", False):
                    # contracts that rest on a hand lemma or demand more than the panic-freedom the property asks for:
                    # a failed obligation without a failing input of the real code is reported as undecided, not as an alarm
                    ob.status = UNDECIDED
                    ob.detail += "\n(the obligation failed but the witness program found no failing input on the real code: reported as undecided)"
    for ob in obls:
        w = getattr(ob, "witness", None)
        if ob.backend == "kani" and ob.status == FAILED and isinstance(w, dict):
            import witness
            prev = getattr(ob, "replay", None) or {}
            if not prev.get("confirmed"):
                witness.attach(ob, w["mode"], w["key"], seed, tier)
            elif w.get("always"):
                # the Kani playback confirmed the failure on the sliced expression only: also look for an
                # end-to-end failing input of the real function
                hit = witness.attach(ob, w["mode"], w["key"], seed, tier)
                if not hit and w.get("required"):
                    ob.status = UNDECIDED
                    ob.detail += "\n(the contract fails on the sliced expression but the witness program found no end-to-end failing input on the real code: reported as undecided)"
                    ob.replay = dict(prev, confirmed=False, real_code_witness=ob.replay)
                    continue
                ob.replay = dict(prev, confirmed=True, real_code_witness=ob.replay,
                                 note="Kani concrete playback reproduces the failure on the sliced expression; "
                                      + ("the witness program reproduces it end-to-end on the real crate" if hit else
                                         "the witness program found no end-to-end failing input"))
    for ob in obls:
        if ob.status == FAILED:
            f = _match_known(ob, kf)
            if f:
                known.append((ob, f))
            else:
                viol.append(ob)
        elif ob.status == UNDECIDED:
            undec.append("%s: %s" % (ob.name, (ob.detail or "").strip()[-600:]))
    # a known finding whose obligation now passes is simply not printed (fixed entries suppress nothing)
    proved = [o for o in obls if o.klass == "complete" and not _match_known(o, kf)]
    bounded = [o for o in obls if o.klass != "complete"]
    n_obl = len(proved)
    n_dis = sum(1 for o in proved if o.status == DISCHARGED)

    lines = []
    for ob, f in known:
        lines.append("KNOWN-FINDING: property=%s %s: %s" % (pid, ob.name, f["what"]))
    rc = 0
    for ob in viol:
        path, confirmed = write_replay(pid, ob)
        tail = "" if confirmed else " no-failing-input-found"
        lines.append("VIOLATION property=%s replay=%s obligation=%s%s" % (pid, path, ob.name, tail))
        rc = 1
    if rc == 0 and undec:
        rc = 2
        for u in undec:
            lines.append("UNDECIDED property=%s %s" % (pid, u.replace("\n", " | ")[:1500]))

    if write_evidence:
        os.makedirs(EVIDENCE, exist_ok=True)
        trusted = list(P.get("trusted_base", []))
        for b, info in infos.items():
            trusted += info.get("trusted_scan", [])
        by_backend = {}
        for o in obls:
            d = by_backend.setdefault(o.backend, {"obligations": 0, "discharged": 0, "seconds": 0.0, "low_level_vcs": 0})
            d["obligations"] += 1
            d["discharged"] += o.status == DISCHARGED
            d["seconds"] = round(d["seconds"] + o.seconds, 3)
            d["low_level_vcs"] += o.vcs
        head, dirty = repo_head()
        ev = {
            "property_id": pid, "tier": tier, "seed": seed, "level": P.get("category", "proof"),
            "coverage": {
                "obligations": n_obl, "discharged": n_dis,
                "checker_cmd": "; ".join(sum([info.get("cmds", info.get("kani_cmds", [])) for info in infos.values()], [])) or "none",
                "trusted_base": trusted,
                "functions_under_contract": sorted({o.fn for o in obls}),
                "by_backend": by_backend,
                "bounded": [o.to_json() for o in bounded],
                "known_findings": [{"obligation": ob.name, "what": f["what"]} for ob, f in known],
                "undecided": undec,
                "samples": [o.to_json() for o in obls],
                "scope": P["scope"], "not_decided": P.get("not_decided", []),
                "extraction": {b: info.get("edits", []) for b, info in infos.items()},
                "backend_info": {b: {k: v for k, v in info.items() if k not in ("edits", "trusted_scan")} for b, info in infos.items()},
                "repo_head": head, "repo_dirty": dirty,
                "exhaustive": False,
            },
            "assumptions": GLOBAL_ASSUMPTIONS + P.get("assumptions", []),
            "wall_s": round(wall, 2), "violations": len(viol),
        }
        if P.get("category") == "other":
            ev["coverage"]["explanation"] = ("bounded symbolic execution (Kani/CBMC) of mechanically extracted slices against a contract; "
                                             "%d bounded obligations, %d discharged; nothing is counted as proved. %s"
                                             % (len(bounded), sum(1 for o in bounded if o.status == DISCHARGED), P["claim"]))
        with open(os.path.join(EVIDENCE, pid + ".json"), "w") as f:
            json.dump(ev, f, indent=1)
    for l in lines:
        print(l)
    print("%s tier=%s: %d/%d proof obligations discharged, %d bounded, %d known findings, %d violations, %d undecided (%.1fs)"
          % (pid, tier, n_dis, n_obl, len(bounded), len(known), len(viol), len(undec), wall))
    return rc
