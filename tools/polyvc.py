"""P back end: PolyVC -- a verification-condition generator for straight-line field-polynomial Rust.

The function body (extracted verbatim from /repo on every run) is parsed and executed symbolically:
every field-typed value is a polynomial in Z[inputs, constants] (sympy), struct values are dicts of
fields, Choice values are boolean formulas whose atoms are polynomial equalities or named opaque
predicates.  Calls to functions that have a contract in the unit are replaced by the contract
(modular).  Anything outside the accepted subset raises Unsupported -> the check is UNDECIDED.

Accepted subset (exactly):
  statements   `let <ident> = <expr>;`  and one tail expression
  expressions  identifiers, paths `A::B`, integer literals, parentheses, unary `-` `&` `*` `!`,
               binary `* + - & |`, field access `.f` / `.0`, struct literals `T { f: e, .. }`,
               tuples `(a, b, c)`, method calls and path calls listed in the unit's environment
               (square, double, neg, clone, ct_eq, is_zero, invert().unwrap_or(ZERO),
               conditional_select, CtOption::new, ...), closures are NOT accepted.
"""
import re

import sympy as sp


class Unsupported(Exception):
    pass


# ----------------------------------------------------------------------------- tokenizer / parser
TOK = re.compile(r"\s*(?:(\d[\d_]*(?:u\d+|i\d+|usize)?)|([A-Za-z_][A-Za-z0-9_]*)|(::|->|=>|==|!=|<<|>=|<=|\.\.|&&|\|\||[-+*/&|!.,;:(){}\[\]<>=#'?])|(\"(?:[^\"\\\\]|\\\\.)*\"))")


def tokenize(src):
    toks = []
    i = 0
    src = re.sub(r"//[^\n]*", "", src)
    src = re.sub(r"/\*.*?\*/", "", src, flags=re.S)
    while i < len(src):
        if src[i:].strip() == "":
            break
        m = TOK.match(src, i)
        if not m:
            raise Unsupported("cannot tokenize at: %r" % src[i:i + 30])
        if m.group(1):
            toks.append(("num", m.group(1)))
        elif m.group(2):
            toks.append(("id", m.group(2)))
        elif m.group(3):
            toks.append(("p", m.group(3)))
        else:
            toks.append(("str", m.group(4)[1:-1]))
        i = m.end()
    return toks


class Parser:
    def __init__(self, toks):
        self.t = toks
        self.i = 0
        self.no_struct = False

    def peek(self, k=0):
        return self.t[self.i + k] if self.i + k < len(self.t) else ("eof", "")

    def next(self):
        tok = self.peek()
        self.i += 1
        return tok

    def expect(self, val):
        tok = self.next()
        if tok[1] != val:
            raise Unsupported("expected %r, got %r" % (val, tok[1]))

    def at(self, val):
        return self.peek()[1] == val and self.peek()[0] in ("p", "id")

    # block: { stmts* tail? }
    def block_items(self):
        stmts = []
        tail = None
        while self.peek()[0] != "eof":
            if self.at("let"):
                self.next()
                if self.at("mut"):
                    self.next()   # mutation happens only through `&mut` arguments of contracted callees (rebinding)
                pat = self.pattern()
                if self.at(":"):
                    self.next()
                    self.skip_type()
                self.expect("=")
                e = self.expr()
                self.expect(";")
                stmts.append(("let", pat, e))
            elif self.at("if"):
                # early-return guard:  if COND { return <expr>; }   (no else)
                self.next()
                self.no_struct = True
                cond = self.expr()
                self.no_struct = False
                self.expect("{")
                self.expect("return")
                self.expr()            # the error value: parsed, never evaluated
                if self.at(";"):
                    self.next()
                self.expect("}")
                stmts.append(("guard", None, cond))
            else:
                e = self.expr()
                if self.at(";"):
                    if e[0] != "try":
                        raise Unsupported("expression statement")
                    # `expr?;` : only the early return matters
                    self.next()
                    stmts.append(("let", ("name", "_"), e))
                    continue
                tail = e
                break
        if self.peek()[0] != "eof":
            raise Unsupported("trailing tokens after tail expression: %r" % (self.peek(),))
        return stmts, tail

    def pattern(self):
        if self.at("("):
            self.next()
            names = []
            while not self.at(")"):
                names.append(self.pattern())
                if self.at(","):
                    self.next()
            self.next()
            return ("tuple", names)
        tok = self.next()
        if tok[0] != "id":
            raise Unsupported("pattern %r" % (tok,))
        return ("name", tok[1])

    def skip_type(self):
        depth = 0
        while True:
            tok = self.peek()
            if tok[1] in ("<", "(", "["):
                depth += 1
            elif tok[1] in (">", ")", "]"):
                depth -= 1
            elif tok[1] == "=" and depth == 0:
                return
            self.next()

    PREC = {"..": 0, "==": 1, "!=": 1, ">": 1, "<": 1, ">=": 1, "<=": 1, "|": 2, "&": 4, "<<": 5, "+": 6, "-": 6, "*": 7}

    def expr(self, minp=0):
        lhs = self.unary()
        while True:
            tok = self.peek()
            if tok[0] == "p" and tok[1] in self.PREC and self.PREC[tok[1]] >= minp:
                op = tok[1]
                self.next()
                rhs = self.expr(self.PREC[op] + 1)
                lhs = ("bin", op, lhs, rhs)
            else:
                return lhs

    def unary(self):
        tok = self.peek()
        if tok[0] == "p" and tok[1] in ("-", "!", "&", "*"):
            self.next()
            if tok[1] == "&" and self.at("mut"):
                self.next()
                e = self.unary()
                if e[0] != "path" or len(e[1]) != 1:
                    raise Unsupported("&mut of something that is not a local")
                return ("mutref", e[1][0])
            e = self.unary()
            if tok[1] in ("&", "*"):
                return e
            return ("un", tok[1], e)
        return self.postfix(self.primary())

    def args(self):
        self.expect("(")
        a = []
        while not self.at(")"):
            if self.at("|"):
                a.append(self.closure())
                if self.at(","):
                    self.next()
                continue
            a.append(self.expr())
            if self.at(","):
                self.next()
        self.next()
        return a

    def closure(self):
        """|a, b| expr    or    |a| { let ..; tail }   (no type annotations, no captures by move)"""
        self.expect("|")
        params = []
        while not self.at("|"):
            pat = self.pattern()
            if self.at(":"):
                # type annotation: skipped up to the `,` or closing `|` at nesting depth 0
                self.next()
                depth = 0
                while True:
                    tok = self.peek()
                    if tok[0] == "eof":
                        raise Unsupported("unterminated closure parameter type")
                    if tok[1] in ("<", "(", "["):
                        depth += 1
                    elif tok[1] in (">", ")", "]"):
                        depth -= 1
                    elif depth == 0 and tok[1] in (",", "|"):
                        break
                    self.next()
            params.append(pat[1] if pat[0] == "name" else pat)
            if self.at(","):
                self.next()
        self.next()
        if self.at("{"):
            # collect the tokens of the block and parse them as a body
            depth = 0
            start = self.i
            while True:
                tok = self.next()
                if tok[0] == "eof":
                    raise Unsupported("unterminated closure block")
                if tok == ("p", "{"):
                    depth += 1
                elif tok == ("p", "}"):
                    depth -= 1
                    if depth == 0:
                        break
            inner = Parser(self.t[start + 1:self.i - 1])
            stmts, tail = inner.block_items()
            return ("closure", params, ("block", stmts, tail))
        return ("closure", params, ("expr", self.expr()))

    def postfix(self, e):
        while True:
            if self.at("."):
                self.next()
                tok = self.next()
                if tok[0] == "num":
                    e = ("field", e, tok[1])
                elif tok[0] == "id":
                    if self.at("::") and self.peek(1)[1] == "<":
                        self.next()
                        depth = 0
                        while True:
                            t2 = self.next()
                            if t2[0] == "eof":
                                raise Unsupported("unterminated turbofish")
                            if t2[1] == "<":
                                depth += 1
                            elif t2[1] == ">":
                                depth -= 1
                                if depth == 0:
                                    break
                    if self.at("("):
                        e = ("mcall", e, tok[1], self.args())
                    else:
                        e = ("field", e, tok[1])
                else:
                    raise Unsupported("postfix %r" % (tok,))
            elif self.at("["):
                self.next()
                idx = self.expr()
                self.expect("]")
                e = ("index", e, idx)
            elif self.at("?"):
                self.next()
                e = ("try", e)
            elif self.at("as"):
                # numeric cast: ignored (values are mathematical integers here)
                self.next()
                t2 = self.next()
                if t2[0] != "id":
                    raise Unsupported("cast to a non-path type")
            else:
                return e

    def primary(self):
        tok = self.next()
        if tok[0] == "num":
            return ("num", int(re.sub(r"(u\d+|i\d+|usize)$", "", tok[1].replace("_", ""))))
        if tok[0] == "str":
            return ("str", tok[1])
        if tok == ("id", "vec") and self.at("!"):
            self.next()
            self.expect("[")
            items = []
            while not self.at("]"):
                items.append(self.expr())
                if self.at(";"):
                    self.next()
                    cnt = self.expr()
                    self.expect("]")
                    return ("repeat", items[0], cnt)
                if self.at(","):
                    self.next()
            self.next()
            return ("tuple", items)
        if tok[0] == "id" and self.at("!") and self.peek(1)[1] == "(":
            # any other macro call: opaque value, arguments skipped
            self.next()
            depth = 0
            while True:
                t2 = self.next()
                if t2[0] == "eof":
                    raise Unsupported("unterminated macro call")
                if t2 == ("p", "("):
                    depth += 1
                elif t2 == ("p", ")"):
                    depth -= 1
                    if depth == 0:
                        break
            return ("macro", tok[1])
        if tok[1] == "[" and tok[0] == "p":
            items = []
            while not self.at("]"):
                items.append(self.expr())
                if self.at(";"):
                    self.next()
                    cnt = self.expr()
                    self.expect("]")
                    return ("repeat", items[0], cnt)
                if self.at(","):
                    self.next()
            self.next()
            return ("tuple", items)
        if tok[1] == "(" and tok[0] == "p":
            items = []
            trailing = False
            while not self.at(")"):
                items.append(self.expr())
                trailing = False
                if self.at(","):
                    self.next()
                    trailing = True
            self.next()
            if len(items) == 1 and not trailing:
                return items[0]
            return ("tuple", items)
        if tok[0] == "id":
            path = [tok[1]]
            while self.at("::"):
                self.next()
                if self.at("<"):  # turbofish
                    depth = 0
                    while True:
                        t2 = self.next()
                        if t2[1] == "<":
                            depth += 1
                        elif t2[1] == ">":
                            depth -= 1
                            if depth == 0:
                                break
                    continue
                t2 = self.next()
                if t2[0] != "id":
                    raise Unsupported("path segment %r" % (t2,))
                path.append(t2[1])
            if self.at("(") and not (len(path) == 1 and path[0] in ("if", "match")):
                return ("call", path, self.args())
            if self.at("{") and path[-1][0].isupper() and not self.no_struct:
                self.next()
                fields = {}
                while not self.at("}"):
                    f = self.next()
                    if f[0] != "id":
                        raise Unsupported("struct literal field %r" % (f,))
                    if self.at(":"):
                        self.next()
                        fields[f[1]] = self.expr()
                    else:
                        fields[f[1]] = ("path", [f[1]])
                    if self.at(","):
                        self.next()
                self.next()
                return ("struct", path, fields)
            if path[0] in ("if", "match", "for", "while", "loop", "unsafe", "return"):
                raise Unsupported("control flow `%s`" % path[0])
            return ("path", path)
        raise Unsupported("unexpected token %r" % (tok,))


def parse_body(text):
    p = Parser(tokenize(text))
    return p.block_items()


# ----------------------------------------------------------------------------- values
class Struct:
    def __init__(self, ty, fields):
        self.ty = ty
        self.fields = fields

    def __repr__(self):
        return "%s%r" % (self.ty, self.fields)


class Tuple:
    def __init__(self, items):
        self.items = items


class MutRef:
    """`&mut local`: lets a contracted callee rebind the local"""

    def __init__(self, loc, name):
        self.loc = loc
        self.name = name

    def get(self):
        return self.loc[self.name]

    def set(self, v):
        self.loc[self.name] = v


class Opt:
    """CtOption / Option-like: value + condition formula"""

    def __init__(self, value, cond):
        self.value = value
        self.cond = cond


# boolean formulas: ("eq", poly) ("atom", name) ("and", a, b) ("or", a, b) ("not", a) ("const", bool)
def b_and(a, b):
    return ("and", a, b)


def b_or(a, b):
    return ("or", a, b)


def b_not(a):
    return ("not", a)


def canon_poly(p):
    p = sp.expand(p)
    if p == 0:
        return sp.Integer(0)
    P = sp.Poly(p)
    c, prim = P.primitive()
    prim = prim.as_expr()
    if sp.Poly(prim).LC(order="lex") < 0:
        prim = -prim
    return sp.expand(prim)


def formula_atoms(f, acc):
    if f[0] == "eq":
        acc.add(("eq", canon_poly(f[1])))
    elif f[0] == "atom":
        acc.add(("atom", f[1]))
    elif f[0] in ("and", "or"):
        formula_atoms(f[1], acc)
        formula_atoms(f[2], acc)
    elif f[0] == "not":
        formula_atoms(f[1], acc)
    return acc


def formula_eval(f, env):
    if f[0] == "eq":
        return env[("eq", canon_poly(f[1]))]
    if f[0] == "atom":
        return env[("atom", f[1])]
    if f[0] == "and":
        return formula_eval(f[1], env) and formula_eval(f[2], env)
    if f[0] == "or":
        return formula_eval(f[1], env) or formula_eval(f[2], env)
    if f[0] == "not":
        return not formula_eval(f[1], env)
    if f[0] == "const":
        return f[1]
    raise Unsupported("formula %r" % (f,))


def formulas_equivalent(f, g):
    atoms = sorted(formula_atoms(f, set()) | formula_atoms(g, set()), key=str)
    if len(atoms) > 12:
        raise Unsupported("too many boolean atoms")
    for bits in range(1 << len(atoms)):
        env = {a: bool((bits >> i) & 1) for i, a in enumerate(atoms)}
        if formula_eval(f, env) != formula_eval(g, env):
            return False, {str(a): v for a, v in env.items()}
    return True, None


# ----------------------------------------------------------------------------- symbolic execution
class Env:
    """Symbolic-execution environment of one unit.

    consts   path tuple -> value            (EDWARDS_D, Base::ONE, ...)
    methods  name -> fn(env, recv, args)     for field values / structs (may dispatch on Struct.ty)
    calls    path tuple -> fn(env, args)
    hyps     polynomials assumed to be zero (collected from preconditions and callee contracts)
    """

    def __init__(self):
        self.consts = {}
        self.methods = {}
        self.calls = {}
        self.hyps = []
        self.fresh_n = 0
        self.case = {}
        self.path = None   # conjunction of the `?` conditions passed so far (None: no `?` met)

    def fresh(self, hint):
        self.fresh_n += 1
        return sp.Symbol("%s_%d" % (hint, self.fresh_n))


def is_poly(v):
    return isinstance(v, sp.Expr)


def ev(env, e, loc):
    k = e[0]
    if k == "num":
        return sp.Integer(e[1])
    if k == "str":
        return e[1]
    if k == "path":
        p = tuple(e[1])
        if len(p) == 1 and p[0] in loc:
            return loc[p[0]]
        if p in env.consts:
            return env.consts[p]
        if len(p) > 1 and p[1:] in env.consts:
            return env.consts[p[1:]]
        raise Unsupported("unknown name %s" % "::".join(p))
    if k == "closure":
        params, body = e[1], e[2]

        def call(*args):
            if len(args) != len(params):
                raise Unsupported("closure arity")
            l2 = dict(loc)
            for prm, a in zip(params, args):
                if isinstance(prm, str):
                    l2[prm] = a
                else:
                    bind(l2, prm, a)
            if body[0] == "expr":
                return ev(env, body[1], l2)
            for _, pat, ex in body[1]:
                bind(l2, pat, ev(env, ex, l2))
            if body[2] is None:
                raise Unsupported("closure block without tail expression")
            return ev(env, body[2], l2)
        return call
    if k == "try":
        v = ev(env, e[1], loc)
        if not isinstance(v, Opt):
            raise Unsupported("`?` on a value that is not Option/Result-like")
        env.path = v.cond if env.path is None else b_and(env.path, v.cond)
        return v.value
    if k == "macro":
        return Struct("Opaque", {"_name": e[1] + "!"})
    if k == "mutref":
        if e[1] not in loc:
            raise Unsupported("&mut of unknown local %s" % e[1])
        return MutRef(loc, e[1])
    if k == "repeat":
        cnt = ev(env, e[2], loc)
        if isinstance(cnt, sp.Integer) and int(cnt) <= 64 and e[1][0] == "num":
            return Tuple([sp.Integer(e[1][1])] * int(cnt))      # small byte buffers
        if not is_poly(cnt):
            raise Unsupported("repeat count is not an integer expression")
        return Struct("Vec", {"len": cnt})
    if k == "tuple":
        return Tuple([ev(env, x, loc) for x in e[1]])
    if k == "struct":
        return Struct(e[1][-1], {f: ev(env, x, loc) for f, x in e[2].items()})
    if k == "field":
        v = ev(env, e[1], loc)
        if isinstance(v, Struct):
            if e[2] not in v.fields:
                raise Unsupported("no field %s in %s" % (e[2], v.ty))
            return v.fields[e[2]]
        if isinstance(v, Tuple):
            return v.items[int(e[2])]
        raise Unsupported("field access .%s on non-struct" % e[2])
    if k == "index":
        v = ev(env, e[1], loc)
        i = ev(env, e[2], loc)
        if isinstance(v, Tuple) and isinstance(i, sp.Integer):
            return v.items[int(i)]
        raise Unsupported("index expression")
    if k == "un":
        v = ev(env, e[2], loc)
        if e[1] == "-":
            if is_poly(v):
                return -v
            if isinstance(v, Struct) and "neg" in env.methods:
                return env.methods["neg"](env, v, [])
            raise Unsupported("unary - on %r" % (v,))
        if e[1] == "!":
            if isinstance(v, tuple):
                return b_not(v)
            raise Unsupported("! on non-Choice")
    if k == "bin":
        a = ev(env, e[2], loc)
        b = ev(env, e[3], loc)
        op = e[1]
        if is_poly(a) and is_poly(b):
            if op == "*":
                return a * b
            if op == "+":
                return a + b
            if op == "-":
                return a - b
            if op == "<<" and a.is_Integer and b.is_Integer:
                return a * 2 ** int(b)
            if op == "==":
                return ("eq", sp.expand(a - b))
            if op == "!=":
                return b_not(("eq", sp.expand(a - b)))
            if op in (">", "<", ">=", "<="):
                return ("atom", "%s %s %s" % (sp.expand(a), op, sp.expand(b)))
            if op == "..":
                return Struct("Range", {"lo": a, "hi": b})
            raise Unsupported("operator %s on field values" % op)
        if isinstance(a, tuple) and isinstance(b, tuple) and op in ("&", "|"):
            return b_and(a, b) if op == "&" else b_or(a, b)
        if isinstance(a, Struct) or isinstance(b, Struct):
            key = ("op", op, getattr(a, "ty", "Base"), getattr(b, "ty", "Base"))
            if key in env.calls:
                return env.calls[key](env, [a, b])
            raise Unsupported("no contract for operator %s on (%s, %s)" % (op, getattr(a, "ty", "Base"), getattr(b, "ty", "Base")))
        raise Unsupported("operator %s on these operands" % op)
    if k == "mcall":
        recv = ev(env, e[1], loc)
        args = [ev(env, x, loc) for x in e[3]]
        name = e[2]
        if isinstance(recv, Struct):
            key = (recv.ty, name)
            if key in env.methods:
                return env.methods[key](env, recv, args)
        if isinstance(recv, Tuple):
            # arrays / vec! literals: the iterator adapters used by the add-mod gates
            if name in ("into_iter", "iter", "clone") and not args:
                return recv
            if name == "reduce" and len(args) == 1 and callable(args[0]):
                if not recv.items:
                    raise Unsupported("reduce on an empty array")
                acc = recv.items[0]
                for x in recv.items[1:]:
                    acc = args[0](acc, x)
                return Opt(acc, ("const", True))
        if isinstance(recv, Opt) and ("Opt", name) in env.methods:
            return env.methods[("Opt", name)](env, recv, args)
        if is_poly(recv) and name in env.methods:
            return env.methods[name](env, recv, args)
        raise Unsupported("method .%s() on %s" % (name, getattr(recv, "ty", type(recv).__name__)))
    if k == "call":
        p = tuple(e[1])
        args = [ev(env, x, loc) for x in e[2]]
        for cand in (p, p[1:], p[-2:], p[-1:]):
            if cand and cand in env.calls:
                return env.calls[cand](env, args)
        raise Unsupported("call to %s (no contract / not in the accepted subset)" % "::".join(p))
    raise Unsupported("expression kind %s" % k)


def bind(loc, pat, val):
    if pat[0] == "name":
        loc[pat[1]] = val
    else:
        if not isinstance(val, Tuple) or len(val.items) != len(pat[1]):
            raise Unsupported("tuple pattern mismatch")
        for p, v in zip(pat[1], val.items):
            bind(loc, p, v)


def run_body(env, body_text, loc):
    stmts, tail = parse_body(body_text)
    loc = dict(loc)
    for kind, pat, e in stmts:
        if kind == "guard":
            c = ev(env, e, loc)
            if not isinstance(c, tuple):
                raise Unsupported("guard condition is not a boolean formula")
            # execution continues only where the condition is false
            if c[0] == "not" and c[1][0] == "eq":
                env.hyps.append(c[1][1])          # `if a != b { return .. }`: a == b from here on
            nc = c[1] if c[0] == "not" else b_not(c)
            env.path = nc if env.path is None else b_and(env.path, nc)
            continue
        bind(loc, pat, ev(env, e, loc))
    if tail is None:
        raise Unsupported("no tail expression")
    out = ev(env, tail, loc)
    if env.path is not None:
        # early returns through `?`: the function yields its tail value only on the path where every `?` passed
        if not isinstance(out, Opt):
            raise Unsupported("`?` in a function whose tail is not Option/Result-like")
        out = Opt(out.value, b_and(env.path, out.cond))
    return out, loc


# ----------------------------------------------------------------------------- standard field methods
def std_field_env(env, base_names=("Base", "Fp", "Fq", "Fp2", "F", "Self")):
    env.methods["square"] = lambda en, r, a: r * r
    env.methods["double"] = lambda en, r, a: 2 * r
    env.methods["neg"] = lambda en, r, a: -r
    env.methods["clone"] = lambda en, r, a: r
    env.methods["ct_eq"] = lambda en, r, a: ("eq", r - a[0])
    env.methods["is_zero"] = lambda en, r, a: ("eq", r)
    env.methods["add"] = lambda en, r, a: r + a[0]
    env.methods["sub"] = lambda en, r, a: r - a[0]
    env.methods["mul"] = lambda en, r, a: r * a[0]

    def invert(en, r, a):
        # CtOption<inverse>: in case "nonzero" the value v satisfies v*r = 1, else the option is none
        key = ("inv", sp.srepr(r))
        v = en.fresh("inv")
        en.hyps_case = getattr(en, "hyps_case", {})
        en.hyps_case[v] = r
        return Opt(v, b_not(("eq", r)))

    env.methods["invert"] = invert

    def unwrap_or(en, r, a):
        # value when is_some, else the default: case split recorded by the unit (env.case['nonzero'])
        d = r.value
        dflt = a[0]
        mode = en.case.get("invert", "nonzero")
        if mode == "nonzero":
            en.hyps.append(r.value * en.hyps_case[r.value] - 1)
            return r.value
        en.hyps.append(en.hyps_case[r.value])
        return dflt

    env.methods[("Opt", "unwrap_or")] = unwrap_or

    def unwrap(en, r, a):
        hc = getattr(en, "hyps_case", {})
        if is_poly(r.value) and r.value in hc:
            en.hyps.append(r.value * hc[r.value] - 1)   # inverse of a non-zero element
        elif r.cond != ("const", True):
            raise Unsupported("unwrap of an option that may be None")
        return r.value

    env.methods[("Opt", "unwrap")] = unwrap

    def and_then(en, r, a):
        f = a[0]
        if not callable(f):
            raise Unsupported("and_then with a non-closure argument")
        res = f(r.value)
        if not isinstance(res, Opt):
            raise Unsupported("and_then closure does not return a CtOption")
        return Opt(res.value, b_and(r.cond, res.cond))

    env.methods[("Opt", "and_then")] = and_then
    for b in base_names:
        env.consts[(b, "ONE")] = sp.Integer(1)
        env.consts[(b, "ZERO")] = sp.Integer(0)
        env.consts[(b, "one")] = sp.Integer(1)
        env.calls[(b, "add")] = lambda en, a: a[0] + a[1]
        env.calls[(b, "sub")] = lambda en, a: a[0] - a[1]
        env.calls[(b, "mul")] = lambda en, a: a[0] * a[1]
        env.calls[(b, "from")] = lambda en, a: a[0]
        env.calls[(b, "zero")] = lambda en, a: sp.Integer(0)
        env.calls[(b, "one")] = lambda en, a: sp.Integer(1)

        def cond_sel(en, a):
            # conditional_select(a, b, choice) = b if choice else a ; resolved by the unit's case
            ch = a[2]
            mode = en.case.get("select")
            if mode is None:
                raise Unsupported("conditional_select without a case assignment")
            return a[1] if mode(ch) else a[0]

        env.calls[(b, "conditional_select")] = cond_sel
    env.calls[("CtOption", "new")] = lambda en, a: Opt(a[0], a[1])
    env.calls[("Choice", "from")] = lambda en, a: a[0]


# ----------------------------------------------------------------------------- deciding ideal membership
def in_ideal(goal, hyps, gens=None):
    """Exact: is `goal` in the ideal generated by hyps (over Q[gens])?  Returns (bool, remainder)."""
    goal = sp.expand(goal)
    if goal == 0:
        return True, sp.Integer(0)
    hyps = [sp.expand(h) for h in hyps if sp.expand(h) != 0]
    if not hyps:
        return False, goal
    syms = sorted(set().union(goal.free_symbols, *[h.free_symbols for h in hyps]), key=lambda s: s.name)
    if gens:
        syms = [s for s in gens if s in syms] + [s for s in syms if s not in gens]
    G = sp.groebner(hyps, *syms, order="grevlex")
    _, r = sp.reduced(goal, list(G.exprs), *syms, order="grevlex")
    return sp.expand(r) == 0, r


def random_refutation(goal, hyps, solve_order, seed, prime=2_147_483_629, tries=40):
    """Find a point over F_p where all hyps vanish and goal does not.  solve_order: list of
    (symbol, expr_giving_it) used to satisfy the hypotheses constructively."""
    import random
    rnd = random.Random(seed)
    syms = sorted(set().union(goal.free_symbols, *[h.free_symbols for h in hyps]) if hyps else goal.free_symbols, key=lambda s: s.name)
    dep = {s for s, _ in solve_order}
    for _ in range(tries):
        val = {s: rnd.randrange(1, prime) for s in syms if s not in dep}
        ok = True
        for s, ex in solve_order:
            num, den = sp.fraction(sp.together(ex))
            n = int(num.subs(val)) % prime
            d = int(den.subs(val)) % prime
            if d == 0:
                ok = False
                break
            val[s] = n * pow(d, -1, prime) % prime
        if not ok:
            continue
        if any(int(h.subs(val)) % prime != 0 for h in hyps):
            continue
        g = int(sp.expand(goal).subs(val)) % prime
        if g != 0:
            return {str(k): v for k, v in val.items()}, g
    return None, None


def find_refutation(goal, hyps, seed, tries=30):
    """Search (over Q, exact) for an assignment where every hypothesis vanishes and the goal does not.
    Hypotheses are satisfied constructively: univariate ones by one of their rational roots, the others
    by solving for a symbol that occurs linearly after the remaining symbols got random small values."""
    import random
    rnd = random.Random(seed)
    goal = sp.expand(goal)
    hyps = [sp.expand(h) for h in hyps if sp.expand(h) != 0]
    for _ in range(tries):
        val = {}
        rem = list(hyps)
        ok = True
        guard = 0
        while rem and ok and guard < 200:
            guard += 1
            progress = False
            for h in list(rem):
                hs = sp.expand(h.subs(val))
                if hs == 0:
                    rem.remove(h)
                    progress = True
                    continue
                fs = sorted(hs.free_symbols, key=lambda x: x.name)
                if not fs:
                    ok = False
                    break
                if len(fs) == 1:
                    rts = [r for r in sp.roots(sp.Poly(hs, fs[0])).keys() if r.is_rational]
                    if not rts:
                        ok = False
                        break
                    val[fs[0]] = rnd.choice(rts)
                    rem.remove(h)
                    progress = True
            if not ok or not rem:
                break
            if not progress:
                # assign random values to all but one linear symbol of some hypothesis
                h = rem[0]
                hs = sp.expand(h.subs(val))
                fs = sorted(hs.free_symbols, key=lambda x: x.name)
                lin = [x for x in fs if sp.degree(hs, x) == 1]
                if not lin:
                    x = rnd.choice(fs)
                    val[x] = sp.Integer(rnd.randint(-9, 9))
                    continue
                keep = rnd.choice(lin)
                for x in fs:
                    if x != keep:
                        val[x] = sp.Integer(rnd.randint(1, 40))
        if not ok or rem:
            continue
        for x in goal.free_symbols:
            if x not in val:
                val[x] = sp.Integer(rnd.randint(1, 40))
        if any(sp.expand(h.subs(val)) != 0 for h in hyps):
            continue
        g = sp.expand(goal.subs(val))
        if g != 0:
            return {str(k): str(v) for k, v in val.items()}, str(g)
    return None, None
