"""Which units decide which property (fixed ids from /verif/properties.jsonl)."""

PROPS = {
    "C07": {
        "units": {"kani": ["c07_sha256"]},
        "scope": "off-circuit spread/limb kernels of the SHA-256, SHA-512 and RIPEMD-160 chips (table contents and every witness limb are computed by them)",
        "not_decided": ["all in-circuit constraint emission, table wiring, message schedule, padding, varlen selection",
                        "Poseidon (chip, cpu, round skips), Keccak/SHA3, BLAKE2b"],
        "trusted_base": [],
        "assumptions": [],
    },
}
