"""Which units decide which property (fixed ids from /verif/properties.jsonl)."""

PROPS = {
    "C07": {
        "units": {"kani": ["c07_sha256"]},
        "scope": "off-circuit spread/limb kernels of the SHA-256, SHA-512 and RIPEMD-160 chips (table contents and every witness limb are computed by them)",
        "not_decided": ["all in-circuit constraint emission, table wiring, message schedule, padding, varlen selection",
                        "Poseidon (chip, cpu, round skips), Keccak/SHA3, BLAKE2b"],
        "trusted_base": [],
        "assumptions": [],
        "claim": "Proof, for ALL inputs of each function, that the off-circuit spread/limb kernels which fill the SHA-256/SHA-512/RIPEMD-160 lookup tables and compute every witness limb are the FIPS 180-4 / RIPEMD functions they stand for (spread/even-odd bijection, Maj, Ch identity, the four sigma functions on the chip's limb splits, limb recomposition and rotation). The in-circuit constraint emission, Poseidon, Keccak and BLAKE2b are NOT decided; a wrong rotation constant in a gate is not seen, one in these utilities is.",
        "level_note": "Kani/CBMC bit-precise over the full input domain of each function (loops bounded by the word width, unwinding assertions on); trusted: Kani+CBMC+SAT solver, rustc MIR semantics; the chips' use of these kernels is not verified.",
        "technique": "Kani function contracts and full-domain harnesses on the real functions (contract-based deductive verification)",
        "design_ref": "DESIGN.md section 5, C07",
    },
}

# claimed in DESIGN.md, machinery not built yet in this revision
PENDING = {}
for _p in ("C05", "C06", "C10", "C11", "C12", "C16", "C19"):
    PENDING[_p] = "planned in DESIGN.md section 5 but the check is not built yet in this revision; not claimed until it is"

NOT_APPLICABLE = {
    "C01": "PLONK completeness is a composition theorem over ~5 kLoC of generic/iterator/rayon/FFI code; the one contract-shaped piece (prover and verifier replay the same Fiat-Shamir trace) lives in nested iterator closures Verus rejects, and Kani cannot build a ProvingKey symbolically.",
    "C02": "verifier soundness is a cryptographic reduction plus agreement of two interpreters of a constraint system; there is no per-function contract whose conjunction is the property.",
    "C03": "statement binding rests on Fiat-Shamir and the pairing check (blst); the contract-shaped pieces (canonical scalar decoding) are decided under C10/C16.",
    "C04": "the property is about the constraint system emitted through the halo2 Region/Layouter API by trait-generic closures; no contract language for emitted constraints is within either verifier's subset, and rewriting the chips would be a model.",
    "C08": "agreement between an off-circuit encoder and in-circuit exposure: same obstacle as C04, plus injectivity over BigUint/curve types from external crates.",
    "C09": "a two-run non-interference (2-safety) property over synthesis; function contracts are single-run and the code is the region-API code of C04.",
    "C13": "all mathematical content (Miller loop, final exponentiation) is inside blst C/assembly; the Rust side is pass-through wrappers, so a contract would restate the property as an axiom.",
    "C14": "completeness/soundness are algebraic + cryptographic; the one data-structure contract (construct_intermediate_sets) sits on generic HashMap/BTreeSet iterator code neither Verus nor Kani can take.",
    "C15": "probabilistic batching soundness; the totality clause is only decidable by executing batch_verify on an empty batch, i.e. a test, not a contract.",
    "C17": "quantifies over thread schedules (Kani has no threads; Verus needs its own permission types) and over write/read pairs of generic FFI-backed key types.",
    "C18": "agreement of two interpreters, one of which emits constraints (C04's obstacle); the off-circuit half runs on BigUint, strings and blst.",
    "C20": "in-circuit verifier and IPA: the obstacles of C02 and C04 combined.",
}
