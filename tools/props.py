"""Which units decide which property (fixed ids from /verif/properties.jsonl)."""

PROPS = {
    "C07": {
        "units": {"kani": ["c07_sha256", "c07_sha512", "c07_ripemd160", "c07_poseidon_varlen", "c07_poseidon_sponge"], "polyvc": ["c07_sha256_gates", "c07_sha512_gates", "c07_ripemd160_gates"]},
        "scope": "off-circuit spread/limb kernels of the SHA-256, SHA-512 and RIPEMD-160 chips (table contents and every witness limb are computed by them)",
        "not_decided": ["all in-circuit constraint emission, table wiring, message schedule, padding, varlen selection",
                        "Poseidon (chip, cpu, round skips), Keccak/SHA3, BLAKE2b"],
        "trusted_base": [],
        "assumptions": [],
        "claim": "Proof, for ALL inputs of each function, that the off-circuit spread/limb kernels which fill the SHA-256/SHA-512/RIPEMD-160 lookup tables and compute every witness limb are the FIPS 180-4 / RIPEMD functions they stand for (spread/even-odd bijection, Maj, Ch identity, the four sigma functions on the chip's limb splits, limb recomposition and rotation). Added: the custom gates of the three chips (28 gate obligations, PolyVC: constraint ideal = ideal of a specification derived from FIPS rotation amounts and the limb layout), and the chunk-index arithmetic of VarLenPoseidonGadget::poseidon_varlen (the filler-zeroing branch is taken exactly on the last chunk; Kani slice, full usize domain); bounded: `absorb` of the in-circuit Poseidon sponge steps like the off-circuit sponge. Cell assignment / copy-constraint wiring, message schedule wiring, padding, the Poseidon permutation, Keccak and BLAKE2b are NOT decided.",
        "level_note": "Kani/CBMC bit-precise over the full input domain of each function (loops bounded by the word width, unwinding assertions on); trusted: Kani+CBMC+SAT solver, rustc MIR semantics; the chips' use of these kernels is not verified.",
        "technique": "Kani function contracts and full-domain harnesses on the real functions (contract-based deductive verification)",
        "design_ref": "DESIGN.md section 5, C07",
    },
}
PROPS["C12"] = {
    "units": {"kani": ["c12_booth", "c12_bitreverse", "c12_windows"], "verus": ["c12_booth_sum", "c12_chunks_v", "c12_msm_parallel_v"]},
    "scope": "the signed-digit (Booth) recoding consumed by every Rust MSM path, the bit-reversal permutation of best_fft, and the chunking arithmetic that makes results independent of the thread count",
    "not_decided": ["bucket / batch-affine / Schedule logic and the butterflies (generic over curve and field traits, iterator adapters)",
                    "msm_specific / multi_exp (blst)", "EvaluationDomain algebra (generic + rayon)"],
    "trusted_base": [],
    "assumptions": [],
    "claim": "Proof for the arithmetic kernels only: get_booth_index returns exactly the radix-2^c Booth digit for every 32-byte scalar, window size 1..24 and window; the window counts of msm_serial / msm_best always include the carry window; hence (Verus induction) the digits consumed by every Rust MSM path sum to the scalar; best_fft's bitreverse is the bit-reversal involution; the chunking arithmetic of parallelize / eval_polynomial partitions the slice exactly and hands every worker the global offset of its chunk, for every length and thread count (Verus, unbounded; the offset slices are functions of all locals in scope); msm_parallel allocates one result slot per chunk, so no term of the sum is dropped (Verus slice; std's Chunks::len contract assumed). The bucket accumulation, butterflies and domain algebra are NOT decided.",
    "level_note": "Kani/CBMC over the full input domain (loops bounded by 32 bytes / 64 bits, unwinding assertions on); bitreverse is a nested fn and is extracted verbatim into a stand-alone crate each run (enclosing function dropped). Trusted: Kani+CBMC, rustc MIR.",
    "technique": "Kani function contract on get_booth_index + full-domain harnesses; Verus integer lemmas (contract-based deductive verification)",
    "design_ref": "DESIGN.md section 5, C12",
}
PROPS["C19"] = {
    "units": {"kani": ["c19_base64", "c19_automaton", "c19_complete_flag"]},
    "scope": "the base64 alphabet table and the derived two-character lookup table used by the in-circuit base64 chip; flag / marker-set bookkeeping of the raw-automaton constructions",
    "not_decided": ["regex -> automaton pipeline (determinisation, minimisation, complement, marker-aware intersection over hash sets)",
                    "the in-circuit parser and base64 chip", "shipped serialized automata", "decode_char (lazy_static HashMap)", "two_entry_table (4096-element Vec construction: CBMC does not finish, Verus cannot ingest the iterator loops)"],
    "trusted_base": [],
    "assumptions": [],
    "claim": "Proof for the base64 alphabet kernel only: BASE64_TABLE is exactly the RFC 4648 section 4 alphabet (a bijection onto 0..64) and two_entry_default is the key of value 0; two_entry_table itself is out of reach of both tools and is reported uncovered. Added (bounded stand-ins and slices, NOT a proof of the pipeline): loop_on_initial and Letter::encode/decode on small automata; the `complete` flag of concat / inter / powerset_construction / leaf constructors is set only when the construction guarantees completeness, completion always covers the unmarked letters, and the universal automaton records marker 0 (field / let slices; the construction lemmas behind the flag contracts are hand arguments, trusted). The regex/automaton pipeline as a whole (language equivalence, determinisation, minimisation) and the in-circuit parser/base64 chip are NOT decided: they are whole-language properties with no per-function contract within reach.",
    "level_note": "Kani/CBMC with symbolic indices over the real constant and the real table-construction function; trusted: Kani+CBMC, rustc MIR. Thin by admission.",
    "technique": "Kani full-domain harnesses against a range-defined RFC 4648 spec (contract-based deductive verification)",
    "design_ref": "DESIGN.md section 5, C19",
}
PROPS["C16"] = {
    "units": {"kani": ["c16_serialization", "c16_pack", "c10_bytes", "c16_arch_columns", "c16_zkir_arity", "c16_zkir_into_bytes", "c16_zkir_used_chips", "c11_compressed_flags", "c16_params_k"], "polyvc": ["c11_bls", "c16_zkir_routing", "c16_vk_read"]},
    "scope": "pure-Rust byte decoders: the automaton Serialize::deserialize family, pack/unpack of selector bytes, and (shared with C10) the canonical-field-encoding decoders",
    "not_decided": ["VerifyingKey::read_from_cs, bincode itself, the rest of ZkStdLib::configure, ParamsKZG::read_custom: generic / iterator / FFI code", "that Instruction::check_arity accepts only what the off-circuit / in-circuit IR parsers can process without panicking",
                    "the verifier itself (verifier.rs) is not under contract: only the invariant it relies on when indexing vk.fixed_commitments is established at decode time (both panics named in the property text were reproduced and repaired)", "IR compile panics that need whole-program reasoning (Jubjub constants without the jubjub chip) or a policy bound (IntoBytes allocation)",
                    "G1/G2 point decoders (blst)"],
    "trusted_base": [],
    "assumptions": [],
    "claim": "Proof (Kani, bounded only in buffer length) that the pure-Rust byte decoders are total and canonical: every Serialize::deserialize instance returns Ok/Err for every buffer, advances by exactly the encoded size and never allocates from an unchecked length; pack/unpack are exact inverses on their documented domain; field decoders accept exactly the canonical encodings (see C10); every public checked point decoder of G1/G2 routes through the on-curve / subgroup checks (see C11); the architecture-descriptor decoder only returns descriptors on which ZkStdLib::configure does not panic. Added: VerifyingKey::read_from_cs establishes the precondition of VerifyingKey::from_parts -- one fixed commitment per fixed column, the invariant the verifier indexes by (PolyVC imperative-decoder subset; callee contracts assumed); the length arithmetic of the IR operation IntoBytes and the zero-modulus guard of ModExp; the arity table covers every index / output count the two IR parsers use; the three ZKIR program decoders (read_relation / read / from_instructions) return Ok exactly when decoding succeeds AND every instruction passes check_arity, from_instructions is the only constructor of ZkirRelation, and Arity::check is the documented predicate (full usize domain). The verifier itself, proof decoding, ParamsKZG::read_custom (prover-side), bincode / serde_json themselves and IR compile panics that need whole-program reasoning are NOT decided.",
    "level_note": "Kani/CBMC; buffer items are bounded (length <= 24 bytes, content and length symbolic) and reported under `bounded`, never counted as proved; pack/unpack and the field decoders are full-domain. format! on error paths is stubbed.",
    "technique": "Kani harness-form contracts on the real decoders (contract-based deductive verification; bounded stand-in for buffer length)",
    "design_ref": "DESIGN.md section 5, C16",
}
PROPS["C10"] = {
    "units": {"verus": ["c10_jubjub_fr", "c10_bls_fq", "c10_curve25519_fp", "c10_bls_fq_consts", "c10_bls_fp_consts"], "kani": ["c10_bytes"]},
    "scope": "all pure-Rust field code: Jubjub Fr and curve25519 Fp (limb arithmetic, Montgomery reduction, decoders), the const path of BLS12-381 Fq (from_raw), limb primitives adc/sbb/mac, Sum/Product over references, the shipped constants of Jubjub Fr / BLS Fq / BLS Fp, and the canonical-encoding predicates and checked raw decoders of the BLS12-381 fields",
    "not_decided": ["every blst_fr_* / blst_fp_* / blst_fp2/6/12_* routine: the run-time Fq/Fp/Fp2/Fp6/Fp12 arithmetic is C/assembly behind FFI",
                    "Fr::pow, pow_vartime, invert, sqrt (loops / 300-step addition chain over square/mul)",
                    "ff::helpers (Tonelli-Shanks), Bernstein-Yang inversion and Jacobi (ff_ext)", "macro-generated BN254 fields and towers (dev-curves)",
                    "k256 wrapper (external crate); curve25519 Fp: invert / sqrt / pow / from_mont / Sum / Product / lexicographically_largest", "Fp6/Fp12 Rust-level tower formulas"],
    "trusted_base": [],
    "assumptions": [],
    "claim": "Proof for the pure-Rust field code and the shipped constants: every limb routine of Jubjub Fr and curve25519 Fp (add, sub, neg, double, mul, square, Montgomery reduction, from_raw) and the const path of BLS12-381 Fq is shown, for ALL limb patterns, to compute the integer operation modulo the modulus over the Montgomery abstraction with the invariant val < q preserved; checked decoders accept exactly the canonical encodings; the published constants of Jubjub Fr, BLS Fq and BLS Fp satisfy their defining equations (evaluated on the extracted limbs). The blst-backed run-time arithmetic of BLS12-381 Fq/Fp and the towers, inversion / sqrt / pow loops, BN254 and k256 are ASSUMED or uncovered, not proved.",
    "level_note": "Verus/Z3 on function bodies extracted verbatim each run (contracts and ghost hints inserted, nothing edited); Kani/CBMC for byte-level decoders; integers modelled exactly. Trusted: Verus+Z3, Kani+CBMC, the extraction scanner; blst is outside.",
    "technique": "Verus contracts (requires/ensures + lemmas) on extracted real functions; Kani harness contracts for byte-level code",
    "design_ref": "DESIGN.md section 5, C10",
}
PROPS["C11"] = {
    "units": {"polyvc": ["c11_jubjub", "c11_bls"], "kani": ["c11_compressed_flags"]},
    "scope": "the pure-Rust Jubjub group law (all representation mixes of add/sub, double, negation, conversions, equality predicates) and the Rust-level coordinate accessors / constructors / equality of BLS12-381 G1 and G2",
    "not_decided": ["all blst point routines (add/double/mult/compress/uncompress/on_curve/in_g1) and therefore the checked-decoder clause for G1/G2",
                    "Jubjub multiply (bit loop), from_bytes_inner (CtOption closures, sqrt), batch_normalize", "secp256k1 / Curve25519 (wrappers over external crates)",
                    "BN254 (macro-generated, dev-only)", "hash_to_curve", "non-vanishing of the Edwards denominators (d non-square): assumed"],
    "trusted_base": [],
    "assumptions": ["the field type's + - * square double invert are the field operations (blst for the Jubjub base field)",
                    "a blst_p1/blst_p2 (x,y,z) denotes the affine point (x/z^2, y/z^3), z = 0 the identity (blst's Jacobian representation)"],
    "claim": "Proof, as polynomial identities valid over every commutative ring, that every pure-Rust Jubjub group operation returns a representative of the twisted-Edwards affine sum / difference / double / negation of the points its arguments denote and re-establishes the representation invariant, that the equality predicates compare exactly the cross-multiplied coordinates, and that the G1/G2 Jacobian accessors, constructors and ct_eq are consistent with blst's Jacobian representation; the checked G1/G2 decoders route through the on-curve / subgroup checks and the flag-consistency test of the generic compressed decoder accepts exactly one encoding of the identity. blst's own point arithmetic and decoders are NOT decided.",
    "level_note": "PolyVC: own VC generator (symbolic execution of the extracted body; goals decided by exact Groebner reduction in sympy). Trusted: the PolyVC parser/executor, sympy; the field implementation and blst's representation are stated assumptions.",
    "technique": "contract-based VC generation over field-polynomial code (ideal membership by Groebner reduction)",
    "design_ref": "DESIGN.md section 1.3 and section 5, C11",
}
PROPS["C06"] = {
    "units": {"polyvc": ["c06_edwards_gates", "c06_foreign_preconditions"], "kani": ["c06_mul_by_constant"]},
    "scope": "the three custom gates of the native (Jubjub) Edwards chip: doubling, conditional addition, curve membership",
    "not_decided": ["that the assignment code puts the right values in the queried cells and copies them correctly (region API)",
                    "scalar-multiplication loop structure, MSM, fixed-base tables", "every foreign-curve gate (secp256k1, BLS12-381 emulation)",
                    "GLV, hash-to-curve, point (de)compression, subgroup checks"],
    "trusted_base": [],
    "assumptions": ["the denominators 1 +- d x1 x2 y1 y2 are units for points on the curve (d is a non-square): number-theoretic, assumed",
                    "the conditional-add gate's bit b is boolean (constrained where the bit is assigned, not by this gate)"],
    "claim": "Proof, for the native Edwards gates only, that each gate's constraint ideal contains the cleared-denominator twisted-Edwards law for the cells it queries (soundness of one activation) and that the honest values satisfy every constraint (completeness). Added: ForeignEccChip::mul_by_constant rebuilds its constant correctly (statement slice; Kani), and the ForeignEccChip functions that document preconditions (incomplete_add, assert_add, assert_slope, ...) are called only from the call sites for which those preconditions are argued (call-site ledger; the arguments themselves are hand arguments, trusted; a new call site is reported only when the MockProver witness finds a failing input); the identity-base rewrite of msm_by_bounded_scalars preserves every term s*B (statement-range slice; PolyVC). Everything else about how cells are assigned and wired, scalar multiplication structure, and the foreign-curve gates is NOT decided.",
    "level_note": "PolyVC on the gate closures extracted verbatim; goals decided by exact Groebner reduction (sympy). Trusted: PolyVC parser/executor, sympy.",
    "technique": "contract-based VC generation over gate polynomials (ideal membership by Groebner reduction)",
    "design_ref": "DESIGN.md section 5, C06",
}
PROPS["C05"] = {
    "units": {"verus": ["c05_biguint_bounds"], "kani": ["c05_chunk_weights", "c05_mod_exp", "c05_field_mul", "c05_biguint_msl"]},
    "scope": "one bookkeeping kernel of the BigUint gadget: the size-bound arithmetic that decides when lazily-normalised limbs must be renormalised",
    "not_decided": ["the CRT identity and get_identity_auxiliary_bounds of the foreign-field chip (BigInt + closures: not ingestible without rewriting, which would be a model)",
                    "every foreign-field / BigUint gate, range check, quotient and carry constraint", "equality / public-input exposure of emulated elements"],
    "trusted_base": [],
    "assumptions": ["std::cmp::max returns the larger argument (assume_specification; vstd has none)"],
    "claim": "Proof for one kernel only (thin by admission): bound_of_addition returns, for all inputs, a true upper bound on the bit size of a sum and the smallest such bound, without u32 overflow. A `max` without the `+ 1` keeps every honest-witness test green and makes the lazy normalisation unsound; that is what this contract pins down. Added: the weights with which FieldChip::assigned_from_le_bytes / assigned_from_le_bits recombine chunks (chunk length, per-chunk exponent, per-byte / per-bit weight) are proved, over the full u32 domain of LOG2_BASE, to be those of the little-endian value (sub-expression slices; Kani); the square-and-multiply schedule of BigUintGadget::mod_exp returns x^n AND reduced for every n (body slice over an abstract domain; callee contracts of mod_mul / div_rem assumed); FieldChip::mul returns k*x*y on every branch, including the shortcuts for the cached constants 0 and 1 (body slice over an abstract domain); the limb count and most-significant-limb bound of BigUintGadget::assign_fixed_biguint / assign_bounded are exactly the bit length's split into LOG2_BASE-bit limbs (slices, full u32 domain). The CRT identity, all gates, range checks and quotient/carry handling of the foreign-field and BigUint gadgets are NOT decided.",
    "level_note": "Verus/Z3 on the function extracted verbatim; one assumed specification (std::cmp::max); Kani on sub-expression slices (loop-free, full domain). Trusted: Verus+Z3, the extraction scanner.",
    "technique": "Verus contract (requires/ensures over pow2 with soundness and minimality lemmas) on the extracted function",
    "design_ref": "DESIGN.md section 5, C05",
}

# claimed in DESIGN.md, machinery not built yet in this revision
PROPS["C01"] = {
    "category": "other",   # bounded Kani/CBMC runs on extracted slices only: nothing of C01 is proved
    "units": {"kani": ["c01_instance_schedule"]},
    "scope": "one link of the Fiat-Shamir schedule only: the order and content of what prover (compute_instances) and verifier (parse_trace) absorb into the transcript for the public inputs (committed and plain instance columns, several proofs)",
    "not_decided": ["everything else of PLONK completeness: the rest of the Fiat-Shamir schedule (advice phases, challenges, lookups, permutation, trash, vanishing, evaluations, multi-open)",
                    "quotient numerator vs. the verifier's identity evaluation, quotient splitting / blinding, polynomial commitment opening",
                    "keygen / prover / verifier for any concrete circuit (Kani cannot build a ProvingKey symbolically; the code is generic over field, curve and commitment-scheme traits)"],
    "trusted_base": [],
    "assumptions": [],
    "claim": "Bounded check of ONE link only (thin by admission): for 2 proofs x 2 instance columns with every committed/plain split and all values, the body of the prover's compute_instances and the verifier's instance-absorption loops put the same sequence of commitments, length prefixes and values into a recording stand-in transcript. This is the configuration (>= 2 proofs with a committed instance column) in which, before the repair, the tree rejected its own honest proofs. PLONK completeness as a whole is NOT decided: it is a composition theorem over generic / iterator / rayon / FFI code with no per-function contract within reach.",
    "level_note": "Kani/CBMC on a body slice (prover) and a capture slice (verifier) with stand-in transcript / polynomial / commitment types; bounded stand-in, reported under `bounded`, never counted as proved. Witness: real prover and verifier on two proofs with a committed instance column.",
    "technique": "Kani harness on mechanically extracted slices against a recording transcript (contract: equal absorption sequences); bounded",
    "design_ref": "DESIGN.md section 9.4 (fix 15) and 9.2",
}
PROPS["C18"] = {
    "units": {"kani": ["c16_zkir_arity", "c16_zkir_into_bytes", "c16_zkir_used_chips", "c05_mod_exp"], "polyvc": ["c16_zkir_routing"]},
    "scope": "the 'rejected with an error value rather than a panic' clause only, for the parts of IR loading and compilation that are within reach: arity validation (and that it is what both parsers index by), the length arithmetic of IntoBytes, the zero-modulus guard of ModExp",
    "not_decided": ["agreement of off-circuit evaluation and the compiled circuit (the core of the property): every operation has separate off-circuit and in-circuit code that emits constraints through the standard library; no contract language for emitted constraints is within reach",
                    "JSON / binary round trips (serde, bincode)", "type checking of operands, name resolution, IR compile panics that need whole-program reasoning (Jubjub constants without the jubjub chip, IntoBytes allocation from an unchecked length)"],
    "trusted_base": [],
    "assumptions": [],
    "claim": "Thin, one clause only: ill-formed programs are rejected with an error instead of panicking, for the checks within reach. Every program decoder returns Ok only when each instruction passes check_arity; the arity table admits only input counts that cover every index the off-circuit and in-circuit parsers use and output counts equal to the number of values they produce; Arity::check is the documented predicate (full usize domain); IntoBytes(n) evaluates its length checks without panicking for every n (off-circuit Native branch, in-circuit BigUint tail); off-circuit ModExp guards the zero modulus; the in-circuit ModExp schedule returns the reduced power for every exponent, as the off-circuit modpow does (body slice of BigUintGadget::mod_exp over an abstract domain); the operand-type tables of IsEqual / AssertEqual / AssertNotEqual are compared between the off-circuit parser and the in-circuit functions (they differ: three known findings, recorded in known_findings.json). The agreement between off-circuit evaluation and the compiled circuit -- the core of C18 -- is NOT decided.",
    "level_note": "Same units as the IR part of C16 (obligations tagged with both properties): PolyVC routing / table obligations, Kani slices. Trusted: the extraction scanner, PolyVC, Kani+CBMC; callee contracts of bincode / serde_json / check_arity atoms assumed.",
    "technique": "PolyVC Result-routing and table-consistency obligations + Kani contracts on sub-expression slices (contract-based deductive verification)",
    "design_ref": "DESIGN.md section 9.4 (fixes 12-14) and 9.2",
}
PENDING = {}
for _p in ():
    PENDING[_p] = "planned in DESIGN.md section 5 but the check is not built yet in this revision; not claimed until it is"

NOT_APPLICABLE = {
    "C02": "verifier soundness is a cryptographic reduction plus agreement of two interpreters of a constraint system; there is no per-function contract whose conjunction is the property.",
    "C03": "statement binding rests on Fiat-Shamir and the pairing check (blst); the contract-shaped pieces (canonical scalar decoding) are decided under C10/C16.",
    "C04": "the property is about the constraint system emitted through the halo2 Region/Layouter API by trait-generic closures; no contract language for emitted constraints is within either verifier's subset, and rewriting the chips would be a model.",
    "C08": "agreement between an off-circuit encoder and in-circuit exposure: same obstacle as C04, plus injectivity over BigUint/curve types from external crates.",
    "C09": "a two-run non-interference (2-safety) property over synthesis; function contracts are single-run and the code is the region-API code of C04.",
    "C13": "all mathematical content (Miller loop, final exponentiation) is inside blst C/assembly; the Rust side is pass-through wrappers, so a contract would restate the property as an axiom.",
    "C14": "completeness/soundness are algebraic + cryptographic; the one data-structure contract (construct_intermediate_sets) sits on generic HashMap/BTreeSet iterator code neither Verus nor Kani can take.",
    "C15": "probabilistic batching soundness; the totality clause is only decidable by executing batch_verify on an empty batch, i.e. a test, not a contract.",
    "C17": "quantifies over thread schedules (Kani has no threads; Verus needs its own permission types) and over write/read pairs of generic FFI-backed key types.",
    "C20": "in-circuit verifier and IPA: the obstacles of C02 and C04 combined.",
}
