//! Witness search on the REAL midnight-zkir crate (built from the current working tree): looks for a
//! concrete failing input when a contract of unit c16_zkir_routing / c16_zkir_arity fails.  Not a
//! deciding step.
//!
//! mode c16_zkir: programs made of one instruction with a wrong input / output count are fed to every
//! program decoder; a decoder that ACCEPTS one of them is a failing input (and the off-circuit compiler
//! pass is then run to show the panic).
use std::{collections::HashMap, env, panic};

use midnight_zk_stdlib::Relation;
use midnight_zkir::{Instruction, Operation, ZkirRelation};

fn esc(s: &str) -> String {
    s.replace('\\', "\\\\").replace('"', "\\\"").replace('\n', " ")
}

fn report(key: &str, case: String, got: &str, expected: &str) {
    println!("{{\"key\": \"{}\", \"case\": \"{}\", \"got\": \"{}\", \"expected\": \"{}\"}}", key, esc(&case), esc(got), expected);
}

fn names(prefix: &str, n: usize) -> Vec<String> {
    (0..n).map(|i| if prefix == "in" { format!("Native:0{}", i + 1) } else { format!("{prefix}{i}") }).collect()
}

/// (operation, inputs, outputs, well-formed?) -- arities from the documentation of the IR
fn family() -> Vec<(Operation, usize, usize, bool)> {
    use Operation::*;
    vec![
        (Add, 2, 1, true),
        (Add, 1, 1, false),
        (Add, 3, 1, false),
        (Add, 2, 0, false),
        (Add, 2, 2, false),
        (Mul, 0, 1, false),
        (Sub, 1, 1, false),
        (Neg, 2, 1, false),
        (Neg, 1, 1, true),
        (AssertEqual, 2, 1, false),
        (AssertEqual, 1, 0, false),
        (AssertEqual, 2, 0, true),
        (IsEqual, 2, 0, false),
        (Publish, 0, 0, false),
        (Publish, 1, 1, false),
        (InnerProduct, 3, 1, false),
        (InnerProduct, 0, 1, false),
        (AffineCoordinates, 1, 1, false),
        (Poseidon, 0, 1, false),
        (Sha256, 2, 1, false),
        (Sha512, 1, 0, false),
    ]
}

fn compile_panics(r: &ZkirRelation) -> Option<String> {
    let r = r.clone();
    match panic::catch_unwind(panic::AssertUnwindSafe(move || {
        let _ = r.public_inputs(HashMap::new());
    })) {
        Ok(()) => None,
        Err(e) => Some(
            e.downcast_ref::<String>().cloned().or_else(|| e.downcast_ref::<&str>().map(|s| s.to_string())).unwrap_or_else(|| "panic".into()),
        ),
    }
}

fn c16_zkir() {
    panic::set_hook(Box::new(|_| {}));
    for (op, ni, no, good) in family() {
        let instr = Instruction { operation: op, inputs: names("in", ni), outputs: names("z", no) };
        let case = format!("{:?} with {} inputs and {} outputs", op, ni, no);
        let what = |accepted: bool, r: Option<&ZkirRelation>| -> String {
            if !accepted {
                return "rejected".into();
            }
            match r.and_then(compile_panics) {
                Some(p) => format!("accepted; ZkirRelation::public_inputs then panics: {p}"),
                None => "accepted".into(),
            }
        };
        // from_instructions
        let r = ZkirRelation::from_instructions(std::slice::from_ref(&instr));
        if r.is_ok() != good {
            report("from_instructions", case.clone(), &what(r.is_ok(), r.as_ref().ok()), if good { "accepted" } else { "rejected (InvalidArity)" });
            report("check_arity", case.clone(), &what(r.is_ok(), r.as_ref().ok()), if good { "accepted" } else { "rejected (InvalidArity)" });
        }
        // bincode decoder: Program { instructions } has the encoding of the vector, followed by the usize
        // that read_relation decodes after it
        let mut bytes = bincode::encode_to_vec(vec![instr.clone()], bincode::config::standard()).unwrap();
        bytes.push(0);
        let r = <ZkirRelation as Relation>::read_relation(&mut &bytes[..]);
        if r.is_ok() != good {
            report("read_relation", format!("bincode of [{}]", case), &what(r.is_ok(), r.as_ref().ok()), if good { "accepted" } else { "rejected" });
        }
        // JSON decoder
        let json = format!("{{\"instructions\": [{}]}}", serde_json::to_string(&instr).unwrap());
        let raw: &'static str = Box::leak(json.clone().into_boxed_str());
        let r = ZkirRelation::read(raw);
        if r.is_ok() != good {
            report("read", format!("JSON {}", json), &what(r.is_ok(), r.as_ref().ok()), if good { "accepted" } else { "rejected" });
        }
    }
}

fn incircuit_panics(r: &ZkirRelation) -> Option<String> {
    use midnight_proofs::{circuit::Value, dev::cost_model::dummy_synthesize_run};
    use midnight_zk_stdlib::MidnightCircuit;
    let r = r.clone();
    match panic::catch_unwind(panic::AssertUnwindSafe(move || {
        let circuit = MidnightCircuit::new(&r, Value::unknown(), Value::unknown(), Some(10));
        let _ = dummy_synthesize_run(&circuit);
    })) {
        Ok(()) => None,
        Err(e) => Some(
            e.downcast_ref::<String>().cloned().or_else(|| e.downcast_ref::<&str>().map(|s| s.to_string())).unwrap_or_else(|| "panic".into()),
        ),
    }
}

fn mod_exp_zero() {
    let instr = Instruction { operation: Operation::ModExp(3), inputs: vec!["BigUint:05".into(), "BigUint:00".into()], outputs: vec!["z".into()] };
    if let Ok(r) = ZkirRelation::from_instructions(std::slice::from_ref(&instr)) {
        if let Some(p) = compile_panics(&r) {
            report("mod_exp_zero_modulus", "ModExp(3) of the constants BigUint:05 and modulus BigUint:00 (off-circuit pass)".into(), &format!("ZkirRelation::public_inputs panics: {p}"), "Ok or Err");
        }
    }
}

/// A program whose only Jubjub-typed value is a constant.
fn jubjub_constant() {
    for (op, ins, outs) in [(Operation::Publish, vec!["JubjubScalar:01"], 0usize), (Operation::IsEqual, vec!["JubjubScalar:01", "JubjubScalar:02"], 1)] {
        let instr = Instruction { operation: op, inputs: ins.iter().map(|s| s.to_string()).collect(), outputs: names("z", outs) };
        if let Ok(r) = ZkirRelation::from_instructions(std::slice::from_ref(&instr)) {
            if let Some(p) = compile_panics(&r) {
                report("jubjub_constant", format!("{:?} of the constant(s) {:?}", op, ins), &format!("ZkirRelation::public_inputs panics: {p}"), "Ok or Err");
            }
        }
    }
}

/// Load of a zero-width big integer (BigUintGadget::assign_bounded admits nb_bits = 0 through max(nb_bits, 1)).
fn biguint_zero_bits() {
    use midnight_zkir::IrType;
    for bits in [0u32, 1, 96, 97] {
        let instr = Instruction { operation: Operation::Load(IrType::BigUint(bits)), inputs: vec![], outputs: vec!["x".into()] };
        if let Ok(r) = ZkirRelation::from_instructions(std::slice::from_ref(&instr)) {
            if let Some(p) = incircuit_panics(&r) {
                report("biguint_zero_bits", format!("Load(BigUint({bits})) -> x (in-circuit pass, dummy synthesis)"), &format!("synthesis panics: {p}"), "Ok or Err");
            }
        }
    }
}

/// Comparison of operand types the in-circuit side does not support: both sides must reject.
fn equality_types() {
    use midnight_proofs::{circuit::Value, dev::cost_model::dummy_synthesize_run};
    use midnight_zk_stdlib::MidnightCircuit;
    for (op, outs) in [(Operation::IsEqual, 1usize), (Operation::AssertEqual, 0), (Operation::AssertNotEqual, 0)] {
        for (a, b) in [("JubjubScalar:01", "JubjubScalar:01"), ("JubjubScalar:01", "JubjubScalar:02"), ("Native:01", "BigUint:01"), ("1", "Native:01")] {
            let instr = Instruction { operation: op, inputs: vec![a.into(), b.into()], outputs: names("z", outs) };
            let Ok(r) = ZkirRelation::from_instructions(std::slice::from_ref(&instr)) else { continue };
            let rr = r.clone();
            let off = panic::catch_unwind(panic::AssertUnwindSafe(move || {
                let mut p = std::collections::HashMap::new();
                p.clear();
                rr.public_inputs(p).is_ok()
            }));
            let rr = r.clone();
            let inc = panic::catch_unwind(panic::AssertUnwindSafe(move || {
                let circuit = MidnightCircuit::new(&rr, Value::unknown(), Value::unknown(), Some(10));
                dummy_synthesize_run(&circuit).is_ok()
            }));
            // AssertEqual(a != b) / AssertNotEqual(a == b) legitimately fail off-circuit on the VALUES: only type-level
            // disagreement counts, i.e. off-circuit Ok while in-circuit Err
            if let (Ok(true), Ok(false)) = (off, inc) {
                report("equality_types", format!("{:?} of the constants {a} and {b}", op), "off-circuit evaluation: Ok; in-circuit synthesis: Err", "the same verdict on both sides");
            }
        }
    }
}

/// IntoBytes(n) of a BigUint allocates n bytes off-circuit.
fn into_bytes_alloc() {
    let instr = Instruction { operation: Operation::IntoBytes(usize::MAX), inputs: vec!["BigUint:05".into()], outputs: vec!["z".into()] };
    if let Ok(r) = ZkirRelation::from_instructions(std::slice::from_ref(&instr)) {
        if let Some(p) = compile_panics(&r) {
            report("into_bytes_alloc", "IntoBytes(usize::MAX) of the constant BigUint:05 (off-circuit pass)".into(), &format!("ZkirRelation::public_inputs panics: {p}"), "Ok or Err");
        }
    }
}

/// IntoBytes(n): n is a parameter of the (untrusted) program.
fn into_bytes_lengths() {
    use Operation::*;
    for n in [0usize, 1, 31, 32, 33, 64, (1usize << 32) + 1, (1usize << 32) + 32] {
        let instr = Instruction { operation: IntoBytes(n), inputs: vec!["Native:01".into()], outputs: vec!["z".into()] };
        if let Ok(r) = ZkirRelation::from_instructions(std::slice::from_ref(&instr)) {
            if let Some(p) = compile_panics(&r) {
                report("into_bytes_native", format!("IntoBytes({n}) of the constant Native:01 (off-circuit pass)"), &format!("ZkirRelation::public_inputs panics: {p}"), "Ok or Err");
            }
        }
    }
    for n in [0usize, 1, 2, 8, 64, 1000] {
        let instr = Instruction { operation: IntoBytes(n), inputs: vec!["BigUint:05".into()], outputs: vec!["z".into()] };
        if let Ok(r) = ZkirRelation::from_instructions(std::slice::from_ref(&instr)) {
            if let Some(p) = incircuit_panics(&r) {
                report("into_bytes_incircuit", format!("IntoBytes({n}) of the constant BigUint:05 (in-circuit pass, dummy synthesis)"), &format!("synthesis panics: {p}"), "Ok or Err");
            }
        }
    }
}

/// Generic search: any single instruction (operation x input count x output count) that the arity
/// validation ACCEPTS must not make the off-circuit compiler pass panic.
fn accepted_but_panics() {
    use midnight_zkir::IrType;
    use Operation::*;
    let ops = vec![
        Load(IrType::Native), Publish, AssertEqual, AssertNotEqual, IsEqual, Add, Sub, Mul, Neg, ModExp(3), InnerProduct,
        AffineCoordinates, IntoBytes(32), FromBytes(IrType::Native), Poseidon, Sha256, Sha512,
    ];
    for op in ops {
        for ni in 0..=4usize {
            for no in 0..=3usize {
                let instr = Instruction { operation: op, inputs: names("in", ni), outputs: names("z", no) };
                if let Ok(r) = ZkirRelation::from_instructions(std::slice::from_ref(&instr)) {
                    if let Some(p) = compile_panics(&r) {
                        for k in ["arity_table_covers_offcircuit_parser", "arity_table_covers_incircuit_parser"] {
                            report(k, format!("{:?} with {} inputs and {} outputs: accepted by from_instructions (check_arity)", op, ni, no),
                                   &format!("ZkirRelation::public_inputs panics: {p}"), "Ok or Err");
                        }
                    }
                }
            }
        }
    }
}

/// Exploratory (not tied to a contract, key `compile_panic`): single well-formed instructions with
/// parameter edge values and inputs of every constant type must compile to Ok or Err, never panic.
fn param_edges() {
    use midnight_zkir::IrType;
    use Operation::*;
    let consts = ["1", "0", "00ff", "", "Native:01", "Native:00", "BigUint:05", "BigUint:00", "Native:", "BigUint:", "zz", "Jubjub:00", "JubjubScalar:01"];
    let mut ops = vec![Publish, AssertEqual, AssertNotEqual, IsEqual, Add, Sub, Mul, Neg, InnerProduct, AffineCoordinates, Poseidon, Sha256, Sha512];
    for n in [0u64, 1, 2, u64::MAX] {
        ops.push(ModExp(n));
    }
    for n in [0usize, 1, 31, 32, 33, 1 << 20, usize::MAX] {
        ops.push(IntoBytes(n));
    }
    for t in [IrType::Bool, IrType::Native, IrType::Bytes(0), IrType::Bytes(1), IrType::Bytes(usize::MAX), IrType::BigUint(0), IrType::BigUint(1), IrType::BigUint(u32::MAX)] {
        ops.push(FromBytes(t));
    }
    let mut seen: Vec<String> = vec![];
    for op in ops {
        for a in consts {
            for b in consts {
                for (ins, outs) in [(vec![a], 1usize), (vec![a, b], 1), (vec![a, b], 0), (vec![a], 2), (vec![a], 0)] {
                    let instr = Instruction { operation: op, inputs: ins.iter().map(|s| s.to_string()).collect(), outputs: names("z", outs) };
                    if let Ok(r) = ZkirRelation::from_instructions(std::slice::from_ref(&instr)) {
                        if let Some(p) = compile_panics(&r) {
                            // one report per distinct panic message
                            if !seen.contains(&p) && seen.len() < 20 {
                                report("compile_panic", format!("{:?} inputs {:?} outputs {}", op, ins, outs), &format!("ZkirRelation::public_inputs panics: {p}"), "Ok or Err");
                                seen.push(p);
                            }
                        }
                    }
                }
            }
        }
    }
}

fn main() {
    let args: Vec<String> = env::args().collect();
    let mode = args.get(1).map(|s| s.as_str()).unwrap_or("");
    match mode {
        "c16_zkir" => {
            c16_zkir();
            accepted_but_panics();
            into_bytes_lengths();
            mod_exp_zero();
            jubjub_constant();
            biguint_zero_bits();
            equality_types();
            into_bytes_alloc();
            param_edges();
        }
        _ => {
            eprintln!("unknown mode");
            std::process::exit(2)
        }
    }
    println!("{{\"done\": \"{}\"}}", mode);
}
