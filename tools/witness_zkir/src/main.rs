//! Witness search on the REAL midnight-zkir crate (built from the current working tree): looks for a
//! concrete failing input when a contract of unit c16_zkir_routing / c16_zkir_arity fails.  Not a
//! deciding step.
//!
//! mode c16_zkir: programs made of one instruction with a wrong input / output count are fed to every
//! program decoder; a decoder that ACCEPTS one of them is a failing input (and the off-circuit compiler
//! pass is then run to show the panic).
use std::{collections::HashMap, env, panic};

use midnight_zk_stdlib::Relation;
use midnight_zkir::{Instruction, Operation, ZkirRelation};

fn esc(s: &str) -> String {
    s.replace('\\', "\\\\").replace('"', "\\\"")
}

fn report(key: &str, case: String, got: &str, expected: &str) {
    println!("{{\"key\": \"{}\", \"case\": \"{}\", \"got\": \"{}\", \"expected\": \"{}\"}}", key, esc(&case), esc(got), expected);
}

fn names(prefix: &str, n: usize) -> Vec<String> {
    (0..n).map(|i| if prefix == "in" { format!("Native:0{}", i + 1) } else { format!("{prefix}{i}") }).collect()
}

/// (operation, inputs, outputs, well-formed?) -- arities from the documentation of the IR
fn family() -> Vec<(Operation, usize, usize, bool)> {
    use Operation::*;
    vec![
        (Add, 2, 1, true),
        (Add, 1, 1, false),
        (Add, 3, 1, false),
        (Add, 2, 0, false),
        (Add, 2, 2, false),
        (Mul, 0, 1, false),
        (Sub, 1, 1, false),
        (Neg, 2, 1, false),
        (Neg, 1, 1, true),
        (AssertEqual, 2, 1, false),
        (AssertEqual, 1, 0, false),
        (AssertEqual, 2, 0, true),
        (IsEqual, 2, 0, false),
        (Publish, 0, 0, false),
        (Publish, 1, 1, false),
        (InnerProduct, 3, 1, false),
        (InnerProduct, 0, 1, false),
        (AffineCoordinates, 1, 1, false),
        (Poseidon, 0, 1, false),
        (Sha256, 2, 1, false),
        (Sha512, 1, 0, false),
    ]
}

fn compile_panics(r: &ZkirRelation) -> Option<String> {
    let r = r.clone();
    match panic::catch_unwind(panic::AssertUnwindSafe(move || {
        let _ = r.public_inputs(HashMap::new());
    })) {
        Ok(()) => None,
        Err(e) => Some(
            e.downcast_ref::<String>().cloned().or_else(|| e.downcast_ref::<&str>().map(|s| s.to_string())).unwrap_or_else(|| "panic".into()),
        ),
    }
}

fn c16_zkir() {
    panic::set_hook(Box::new(|_| {}));
    for (op, ni, no, good) in family() {
        let instr = Instruction { operation: op, inputs: names("in", ni), outputs: names("z", no) };
        let case = format!("{:?} with {} inputs and {} outputs", op, ni, no);
        let what = |accepted: bool, r: Option<&ZkirRelation>| -> String {
            if !accepted {
                return "rejected".into();
            }
            match r.and_then(compile_panics) {
                Some(p) => format!("accepted; ZkirRelation::public_inputs then panics: {p}"),
                None => "accepted".into(),
            }
        };
        // from_instructions
        let r = ZkirRelation::from_instructions(std::slice::from_ref(&instr));
        if r.is_ok() != good {
            report("from_instructions", case.clone(), &what(r.is_ok(), r.as_ref().ok()), if good { "accepted" } else { "rejected (InvalidArity)" });
            report("check_arity", case.clone(), &what(r.is_ok(), r.as_ref().ok()), if good { "accepted" } else { "rejected (InvalidArity)" });
        }
        // bincode decoder: Program { instructions } has the encoding of the vector, followed by the usize
        // that read_relation decodes after it
        let mut bytes = bincode::encode_to_vec(vec![instr.clone()], bincode::config::standard()).unwrap();
        bytes.push(0);
        let r = <ZkirRelation as Relation>::read_relation(&mut &bytes[..]);
        if r.is_ok() != good {
            report("read_relation", format!("bincode of [{}]", case), &what(r.is_ok(), r.as_ref().ok()), if good { "accepted" } else { "rejected" });
        }
        // JSON decoder
        let json = format!("{{\"instructions\": [{}]}}", serde_json::to_string(&instr).unwrap());
        let raw: &'static str = Box::leak(json.clone().into_boxed_str());
        let r = ZkirRelation::read(raw);
        if r.is_ok() != good {
            report("read", format!("JSON {}", json), &what(r.is_ok(), r.as_ref().ok()), if good { "accepted" } else { "rejected" });
        }
    }
}

fn main() {
    let args: Vec<String> = env::args().collect();
    let mode = args.get(1).map(|s| s.as_str()).unwrap_or("");
    match mode {
        "c16_zkir" => c16_zkir(),
        _ => {
            eprintln!("unknown mode");
            std::process::exit(2)
        }
    }
    println!("{{\"done\": \"{}\"}}", mode);
}
